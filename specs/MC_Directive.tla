---------------------------- MODULE MC_Directive ----------------------------
(* Alphabets for the TLC runs over Directive.tla *)
EXTENDS Directive

A(sign, name, args, sp) == [sign |-> sign, name |-> name, args |-> args, sp |-> sp]

\* option syntax: signs, case, inner blanks, unknown names, REQUIRES with one or two arguments (met / unmet / malformed)
Syntax_Atoms == {A("+", "SKIP", <<>>, FALSE), A("-", "SKIP", <<>>, FALSE), A("", "SKIP", <<>>, FALSE), A("+", "skip", <<>>, FALSE),
                 A("+", "SKIP", <<>>, TRUE), A("", "Skip", <<>>, FALSE),
                 A("+", "ELLIPSIS", <<>>, FALSE), A("-", "ELLIPSIS", <<>>, FALSE), A("", "ellipsis", <<>>, FALSE),
                 A("+", "NOPE", <<>>, FALSE), A("", "IGNORE_WANT", <<>>, FALSE),
                 A("+", "REQUIRES", <<"module:os">>, FALSE), A("+", "REQUIRES", <<"module:xdv_nope">>, FALSE),
                 A("-", "REQUIRES", <<"module:xdv_nope">>, FALSE), A("+", "REQUIRES", <<"env:SET==v", "--xdvoff">>, TRUE),
                 A("", "requires", <<"--xdvoff", "module:xdv_nope">>, FALSE), A("-", "REQUIRES", <<"--xdvoff">>, TRUE),
                 A("+", "REQUIRES", <<"bogus">>, FALSE)}
All_Seps == {",", ", ", " "}
One_Prefix == {"xdoctest: "}
One_Place == {"own"}

\* recognition: prefixes x placements with one or two simple atoms
All_Prefixes == {"xdoctest: ", "doctest: ", "xdoc: ", "doc: ", "XDOCTEST: ", "Doctest:", "xdoctest:    ", "xdoctest : ", "notdoctest: ", "xdoctest ", "doctests: "}
All_Places == {"own", "trailing", "continuation", "afterblank", "instring"}
\* the standard module's option comments (C20): standard prefix, inline placements, options both modules know
Std_Prefix == {"doctest: "}
Std_Places == {"trailing", "continuation", "afterblank"}
Std_Atoms == {A("+", "SKIP", <<>>, FALSE), A("-", "SKIP", <<>>, FALSE), A("+", "ELLIPSIS", <<>>, FALSE), A("+", "SKIP", <<>>, TRUE)}
Recog_Atoms == {A("+", "SKIP", <<>>, FALSE), A("", "skip", <<>>, FALSE), A("+", "REQUIRES", <<"module:xdv_nope">>, FALSE),
                A("-", "ELLIPSIS", <<>>, FALSE), A("+", "REQUIRES", <<"bogus">>, FALSE)}

\* conditions: every spelling, added and removed
Cond_Atoms == {A(sg, "REQUIRES", <<c>>, FALSE) : sg \in {"+", "-"}, c \in CondIds}
Comma_Seps == {", "}

TheWorld == [platform |-> "p", osname |-> "o", impl |-> "i", pyver |-> "y"]
=============================================================================
