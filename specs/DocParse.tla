------------------------------ MODULE DocParse ------------------------------
(***************************************************************************)
(* The docstring parser: xdoctest.parser.DoctestParser.parse               *)
(*   _label_docsrc_lines (+ _complete_source)  -> Feed, one step per line  *)
(*   _group_labeled_lines                      -> Groups/Merged/Chunks     *)
(*   _package_groups/_package_chunk            -> Package                  *)
(*                                                                         *)
(* A docstring is a sequence of abstract lines.  A line carries exactly    *)
(* the attributes the code's predicates read (Appendix A of DESIGN.md):    *)
(*   k     "blank" | "text" | "p1" (>>> ...) | "p2" (... code) |           *)
(*         "bare" (exactly ...) | "raw" (unprefixed line of a string)      *)
(*   ind   indentation level of the line                                   *)
(*   cont  how many following lines the tokenizer needs before the text    *)
(*         that starts on this line is balanced (brackets, triple quotes,  *)
(*         backslash) - stands for static.is_balanced_statement            *)
(*   tq    the text opened on this line contains a triple quote            *)
(*   first the line starts a top-level statement of its chunk (ast node    *)
(*         lineno, decorator line for decorated definitions, or a column-0 *)
(*         comment line, which the parser turns into a statement)          *)
(*   expr, semi   that statement is an expression / the line has a ';'     *)
(*   cmt   the line holds a comment only                                   *)
(*   ndir  number of directives in the line's comment                      *)
(*   bad   the completed statement is not valid Python (malformed input)   *)
(*   sid   ghost: index of the building block the line comes from          *)
(*                                                                         *)
(* The docstring is built lazily from building blocks (AddBlock) and the   *)
(* labeller consumes each new line before the next block is chosen, so     *)
(* TLC shares prefixes.  The DECLARATIVE labelling Decl is written from    *)
(* the text of property C13 and does not use the labeller's states.        *)
(***************************************************************************)
EXTENDS Integers, Sequences, FiniteSets, SequencesExt, TLC

CONSTANTS Blocks, MaxBlocks, MinBlocks, Deviation

Ln(k, ind, sid, cont, tq, first, expr, semi, cmt, ndir, bad) ==
  [k |-> k, ind |-> ind, sid |-> sid, cont |-> cont, tq |-> tq, first |-> first, expr |-> expr,
   semi |-> semi, cmt |-> cmt, ndir |-> ndir, bad |-> bad]
Plain(k, ind, sid) == Ln(k, ind, sid, 0, FALSE, FALSE, FALSE, FALSE, FALSE, 0, FALSE)

-----------------------------------------------------------------------------
(* Building blocks -> lines *)

\* shapes of a statement block
Len1  == {"one", "expr", "semi", "cmt", "badone", "star", "asg", "echo", "prn", "exc"}     \* star: "from m import *" (dropped by the dump command)
ShapeLen(s)  == CASE s \in Len1 -> 1
                  [] s \in {"ml2", "mlx2", "cmp2", "trunc2", "pair2", "cmpq2", "mlq2"} -> 2      \* cmpq2 / mlq2: cmp2 / ml2 that print nothing
                  [] s = "f9" -> 4                             \* if / body / column-0 comment / else  (known finding F9)
                  [] OTHER -> 3                               \* ml3 tri3 cmp3 deco3 braw3 f10 mlb3
ShapeCont(s) == CASE s \in {"ml2", "mlx2", "f10", "mlq2"} -> 1            \* f10: backslash-continued compound header (known finding F10)
                  [] s \in {"ml3", "tri3", "braw3", "mlb3"} -> 2  \* mlb3: a bracketed statement with an EMPTY line inside
                  [] s = "trunc2" -> 99                       \* never balanced
                  [] OTHER -> 0
ShapeExpr(s) == s \in {"expr", "semi", "mlx2", "echo", "prn", "exc"}
InnerKind(s, style) == IF s \in {"tri3", "braw3"} THEN "raw" ELSE IF style = "a" THEN "p1" ELSE "p2"
InnerKindAt(s, style, j) == IF s = "mlb3" /\ j = 2 THEN "blank" ELSE InnerKind(s, style)

\* lines of the statement block b with ghost id
StmtLines(b, id) ==
  LET n == ShapeLen(b.shape)
      dirAt == IF b.dir = "none" THEN 0 ELSE IF b.dir \in {"first", "opt", "neg"} THEN 1 ELSE n
      body == [j \in 1..n |->
                IF j = 1
                THEN Ln("p1", b.ind, id, ShapeCont(b.shape), b.shape = "tri3", TRUE, ShapeExpr(b.shape), b.shape = "semi",
                        b.shape = "cmt", IF dirAt = 1 THEN 1 ELSE 0, b.shape = "badone")
                ELSE Ln(InnerKindAt(b.shape, b.style, j), IF b.shape = "mlb3" /\ j = 2 THEN 0 ELSE b.ind, id, 0, FALSE,
                        b.shape = "pair2",      \* pair2: a second statement written on a "..." line
                        FALSE, FALSE, FALSE, IF dirAt = j THEN 1 ELSE 0, FALSE)]
  IN IF b.style = "t" THEN Append(body, Plain("bare", b.ind, id)) ELSE body

Expand(b, id) ==
  CASE b.t = "blank" -> <<Plain("blank", 0, 0)>>
    [] b.t = "text"  -> [j \in 1..b.n |-> Plain("text", b.ind, 0)]
    [] b.t = "bare"  -> <<Plain("bare", b.ind, 0)>>
    [] b.t = "ex"    -> StmtLines(b, id) \o [j \in 1..b.n |-> Plain("text", b.ind, 0)]      \* an example with its want (C20)
    [] b.t = "p2txt" -> <<Ln("p2", b.ind, 0, 0, FALSE, FALSE, FALSE, FALSE, FALSE, 0, TRUE)>>   \* "... text": prose, not Python
    [] OTHER         -> StmtLines(b, id)

-----------------------------------------------------------------------------
(* Declarative labelling, from the statement of C13:                        *)
(*  source = prompt-prefixed lines + the lines needed to complete a          *)
(*           statement they open (+ "..." continuation lines directly under  *)
(*           source at the same indentation; a bare "..." continues only a   *)
(*           continuation)                                                   *)
(*  want   = the non-blank lines that follow source up to the first blank    *)
(*           line, de-indented line or next prompt                           *)
(*  text   = everything else                                                 *)
RECURSIVE DeclFrom(_, _, _)
DeclFrom(ls, j, labs) ==
  IF j > Len(ls) THEN labs
  ELSE
   LET ln == ls[j]
       needed == \E s \in 1..(j-1) : labs[s] = "src" /\ ls[s].cont >= j - s /\ ls[s].first
       prevSrc == j > 1 /\ labs[j-1] = "src"
       contLine == prevSrc /\ ln.ind = ls[j-1].ind /\
                   (ln.k = "p2" \/ (ln.k = "bare" /\ ls[j-1].k \in {"p2", "bare", "raw"}))
       isSrc == ln.k = "p1" \/ needed \/ contLine
       \* the source line this output would belong to
       S == {s \in 1..(j-1) : labs[s] = "src"}
       lastSrc == IF S = {} THEN 0 ELSE CHOOSE s \in S : \A s2 \in S : s2 <= s
       follows == j > 1 /\ labs[j-1] \in {"src", "want"} /\ lastSrc > 0
       isWant == ~isSrc /\ ln.k # "blank" /\ follows /\ ln.ind >= ls[lastSrc].ind
       lab == IF isSrc THEN "src" ELSE IF isWant THEN "want" ELSE "text"
   IN DeclFrom(ls, j + 1, Append(labs, lab))
Decl(ls) == DeclFrom(ls, 1, <<>>)

\* F11 (known finding): a prompt at another indentation directly under want-less source
F11At(ls, d, j) == j > 1 /\ ls[j].k = "p1" /\ d[j-1] = "src" /\ ls[j].ind # ls[j-1].ind
HasF11(ls) == LET d == Decl(ls) IN \E j \in 1..Len(ls) : F11At(ls, d, j)

-----------------------------------------------------------------------------
(* Operational model *)

VARIABLES
  blocks,    \* history: the building blocks chosen so far
  lines,     \* the docstring (derived from blocks)
  pos,       \* next line the labeller reads
  prev,      \* prev_state of the labeller: "text" | "dsrc" | "dcnt" | "want"
  sind,      \* state_indent
  skip,      \* lines _complete_source still has to pull before the statement is balanced
  ctq,       \* the statement being completed contains a triple quote
  labels,    \* label of every consumed line
  err,       \* "none" | "incomplete" | "badindent" | "syntax"
  pc,        \* "scan" | "done"
  parts,     \* result of grouping and packaging (at done, when err = "none")
  round,     \* 1: the docstring as written; 2: its formatted source (source and want lines only) parsed again (C18)
  parts1,    \* round 2: the parts of round 1
  lines1     \* round 2: the lines of round 1

vars == <<blocks, lines, pos, prev, sind, skip, ctq, labels, err, pc, parts, round, parts1, lines1>>

Init ==
  /\ blocks = <<>> /\ lines = <<>> /\ pos = 1 /\ prev = "text" /\ sind = 0 /\ skip = 0 /\ ctq = FALSE
  /\ labels = <<>> /\ err = "none" /\ pc = "scan" /\ parts = <<>>
  /\ round = 1 /\ parts1 = <<>> /\ lines1 = <<>>

AddBlock ==
  /\ pc = "scan" /\ pos > Len(lines) /\ Len(blocks) < MaxBlocks /\ round = 1
  /\ \E b \in Blocks :
        /\ blocks' = Append(blocks, b)
        /\ lines' = lines \o Expand(b, Len(blocks) + 1)
  /\ UNCHANGED <<pos, prev, sind, skip, ctq, labels, err, pc, parts, round, parts1, lines1>>

-----------------------------------------------------------------------------
(* Which statements run (C01/C04 over the parser): SKIP directives only.     *)
(* Declarative: a comment line with +SKIP/-SKIP switches the state for what  *)
(* follows, a trailing +SKIP disables its own statement only.                *)
RECURSIVE RunSetDeclFrom(_, _, _)
RunSetDeclFrom(bs, x, skipping) ==
  IF x > Len(bs) THEN <<>>
  ELSE LET b == bs[x] IN
       IF b.t \notin {"stmt", "ex"} THEN RunSetDeclFrom(bs, x + 1, skipping)
       ELSE IF b.shape = "cmt"
            THEN RunSetDeclFrom(bs, x + 1, IF b.dir = "first" THEN TRUE ELSE IF b.dir = "neg" THEN FALSE ELSE skipping)
            ELSE (IF ~skipping /\ b.dir \in {"none", "opt"} THEN <<x>> ELSE <<>>) \o RunSetDeclFrom(bs, x + 1, skipping)   \* "opt": a directive other than SKIP
RunSetDecl(bs) == RunSetDeclFrom(bs, 1, FALSE)

\* Operational: the run loop over the packaged parts (directive update, skip test, has_any_code)
RECURSIVE RunSetOpFrom(_, _, _)
RunSetOpFrom(ps, x, gskip) ==
  IF x > Len(ps) THEN <<>>
  ELSE LET p == ps[x] IN
       IF p.t # "code" THEN RunSetOpFrom(ps, x + 1, gskip)
       ELSE LET neg == blocks[lines[p.a].sid].dir = "neg"
                isopt == blocks[lines[p.a].sid].dir = "opt"
                g2 == IF p.ndir > 0 /\ ~p.inl /\ ~isopt THEN ~neg ELSE gskip
                local == IF p.ndir > 0 /\ p.inl /\ ~isopt THEN ~neg ELSE g2
                hascode == \E j \in p.a..p.b : ~lines[j].cmt
                sids == SetToSortSeq({lines[j].sid : j \in {j2 \in p.a..p.b : lines[j2].first /\ ~lines[j2].cmt}}, <)
            IN (IF ~local /\ hascode THEN sids ELSE <<>>) \o RunSetOpFrom(ps, x + 1, g2)

\* every finished docstring is printed once (one line) for the replay harness
Brief(ls) == [j \in 1..Len(ls) |-> <<ls[j].k, ls[j].ind, ls[j].sid>>]
BriefParts(ps) == [x \in 1..Len(ps) |-> <<ps[x].t, ps[x].a, ps[x].b, ps[x].wa, ps[x].wb, ps[x].mode, ps[x].ndir, ps[x].inl>>]
Emit(e, ps) == IF "Emit" \in Deviation /\ round = 1
               THEN PrintT("XDV " \o ToString(<<blocks, Brief(lines), labels, BriefParts(ps), e, HasF11(lines), Decl(lines), RunSetDecl(blocks)>>))
               ELSE TRUE

\* one iteration of `for line_idx, line in line_iter` or one `next(line_iter)` inside _complete_source
Feed ==
  /\ pc = "scan" /\ pos <= Len(lines)
  /\ LET ln == lines[pos] IN
     IF skip > 0
     THEN \* _complete_source pulls the line: prefix = norm_line[:4] must be a prompt, blank, or the triple-quote hack applies
          LET atind   == ln.ind = sind
              dotted  == atind /\ ln.k \in {"p2", "bare"}
              accepted == \/ ln.k = "blank"
                          \/ (atind /\ ln.k \in {"p1", "p2", "bare"})
                          \/ ln.ind > sind
              hack    == ~accepted /\ ctq /\ "NoTripleQuoteHack" \notin Deviation
              lab     == IF dotted \/ hack THEN "dcnt" ELSE prev
          IN IF accepted \/ hack
             THEN /\ labels' = Append(labels, lab) /\ prev' = lab /\ skip' = skip - 1 /\ pos' = pos + 1
                  /\ UNCHANGED <<sind, ctq, err, pc>>
             ELSE /\ err' = "badindent" /\ pc' = "done"
                  /\ Emit("badindent", <<>>)
                  /\ UNCHANGED <<labels, prev, skip, pos, sind, ctq>>
     ELSE LET curr == CASE prev = "text" -> IF ln.k = "p1" THEN "dsrc" ELSE "text"
                        [] prev = "want" -> IF ln.k = "blank" THEN "text"
                                            ELSE IF ln.k = "p1" /\ "WantOnlyEndsAtBlank" \notin Deviation THEN "dsrc"
                                            ELSE IF ln.ind < sind THEN "text"
                                            ELSE "want"
                        [] OTHER -> IF ln.k = "blank" \/ ln.ind < sind THEN "text"
                                    ELSE IF ln.ind = sind /\ ln.k \in {"p1", "p2", "bare"}
                                         THEN (IF ln.k = "bare" THEN (IF prev = "dcnt" THEN "dcnt" ELSE "want")
                                               ELSE IF ln.k = "p2" THEN "dcnt" ELSE "dsrc")
                                         ELSE "want"
              curr2 == curr
              sind2 == IF prev # curr2
                       THEN (IF curr2 = "text" THEN (IF "NoIndentReset" \in Deviation THEN sind ELSE 0)
                             ELSE IF curr2 \in {"dsrc", "dcnt"} THEN ln.ind ELSE sind)
                       ELSE sind
              lab == IF curr2 \in {"dsrc", "dcnt"} /\ ln.k \in {"p2", "bare"} THEN "dcnt" ELSE curr2
          IN /\ labels' = Append(labels, lab) /\ prev' = lab /\ sind' = sind2 /\ pos' = pos + 1
             /\ skip' = (IF curr2 \in {"dsrc", "dcnt"} THEN ln.cont ELSE 0)
             /\ ctq' = (IF curr2 \in {"dsrc", "dcnt"} THEN ln.tq ELSE FALSE)
             /\ UNCHANGED <<err, pc>>
  /\ UNCHANGED <<blocks, lines, parts, round, parts1, lines1>>

-----------------------------------------------------------------------------
(* _group_labeled_lines, on index ranges *)

Lab(j) == IF j < 1 \/ j > Len(labels) THEN "none" ELSE labels[j]
NewGroup(j) == (Lab(j-1) # Lab(j) \/ (Lab(j) = "dsrc" /\ Lab(j+1) = "dcnt" /\ "NoOldStyleIsolation" \notin Deviation))
               /\ ~(Lab(j-1) = "dsrc" /\ Lab(j) = "dcnt")

\* first pass: [a, b, st] runs that start where NewGroup holds
Groups ==
  LET n == Len(labels)
      starts == SetToSortSeq({j \in 1..n : NewGroup(j)}, <)
      m == Len(starts)
  IN [g \in 1..m |-> [a |-> starts[g], b |-> IF g = m THEN n ELSE starts[g+1] - 1, st |-> labels[starts[g]]]]

\* second pass: consecutive groups of the same state are merged unless a want follows
Merged ==
  LET G == Groups
      m == Len(G)
      St(x) == IF x < 1 \/ x > m THEN "none" ELSE G[x].st
      keepsApart(x) == ~(St(x-1) = St(x) /\ St(x+1) # "want")
      starts == SetToSortSeq({x \in 1..m : keepsApart(x)}, <)
      k == Len(starts)
  IN [y \in 1..k |-> [a |-> G[starts[y]].a,
                      b |-> IF y = k THEN (IF m = 0 THEN 0 ELSE G[m].b) ELSE G[starts[y+1]].a - 1,
                      st |-> G[starts[y]].st]]

\* third pass: text groups stay, source groups are paired with a directly following want group
Chunks ==
  LET M == Merged
      k == Len(M)
      IsSrcG(x) == M[x].st \in {"dsrc", "dcnt"}
      C(x) == IF M[x].st = "text" THEN [t |-> "text", a |-> M[x].a, b |-> M[x].b, wa |-> M[x].b + 1, wb |-> M[x].b]
              ELSE IF x < k /\ M[x+1].st = "want"
                   THEN [t |-> "code", a |-> M[x].a, b |-> M[x].b, wa |-> M[x+1].a, wb |-> M[x+1].b]
                   ELSE [t |-> "code", a |-> M[x].a, b |-> M[x].b, wa |-> M[x].b + 1, wb |-> M[x].b]
  IN SelectSeq([x \in 1..k |-> IF M[x].st = "want" THEN [t |-> "drop", a |-> 0, b |-> 0, wa |-> 0, wb |-> 0] ELSE C(x)],
               LAMBDA c : c.t # "drop")

-----------------------------------------------------------------------------
(* _package_chunk for one code chunk c: sequence of parts *)

Ps1(c) == {j \in c.a..c.b : lines[j].first /\ lines[j].k = "p1"}
HasWant(c) == c.wb >= c.wa
ModeHint(c) ==
  LET F == {j \in c.a..c.b : lines[j].first}
      last == CHOOSE j \in F : \A j2 \in F : j2 <= j
      base == IF F # {} /\ lines[last].expr THEN "eval" ELSE "exec"
      oldstyle == c.b > c.a /\ lines[c.a].k = "p1" /\ \A j \in (c.a+1)..c.b : lines[j].k \in {"p2", "bare", "raw"}
  IN IF oldstyle /\ "NoSingleMode" \notin Deviation THEN "single"
     ELSE IF base = "eval" /\ \E j \in c.a..c.b : lines[j].semi THEN "single"
     ELSE base

Package(c) ==
  LET P == SetToSortSeq(Ps1(c), <)
      np == Len(P)
      SegEnd(x) == IF x = np THEN c.b ELSE P[x+1] - 1
      NDir(x) == LET S == {j \in P[x]..SegEnd(x) : lines[j].ndir > 0} IN Cardinality(S)
      Inl(x) == \E j \in P[x]..SegEnd(x) : ~lines[j].cmt
      breaks == UNION {(IF NDir(x) > 0 THEN {P[x]} ELSE {}) \cup
                       (IF NDir(x) > 0 /\ Inl(x) /\ x < np /\ "NoBreakAfterInline" \notin Deviation THEN {P[x+1]} ELSE {})
                       : x \in 1..np}
      B == SetToSortSeq({c.a} \cup breaks, <)
      nb == Len(B)
      DirOf(s) == IF \E x \in 1..np : P[x] = s THEN LET x == CHOOSE x \in 1..np : P[x] = s IN NDir(x) ELSE 0
      InlOf(s) == IF \E x \in 1..np : P[x] = s THEN LET x == CHOOSE x \in 1..np : P[x] = s IN NDir(x) > 0 /\ Inl(x) ELSE FALSE
      Slice(s1, s2) == [t |-> "code", a |-> s1, b |-> s2, wa |-> s2 + 1, wb |-> s2, mode |-> "exec", ndir |-> DirOf(s1), inl |-> InlOf(s1)]
      pre == IF breaks = {} THEN <<>> ELSE [x \in 1..(nb-1) |-> Slice(B[x], B[x+1] - 1)]
      s1a == IF breaks = {} THEN c.a ELSE B[nb]
      hint == ModeHint(c)
      lastps1 == IF np = 0 THEN c.a ELSE P[np]
      splitFinal == HasWant(c) /\ hint \in {"eval", "single"} /\ lastps1 # s1a /\ "NoFinalSplit" \notin Deviation
      mid == IF splitFinal THEN <<Slice(s1a, lastps1 - 1)>> ELSE <<>>
      s1b == IF splitFinal THEN lastps1 ELSE s1a
      final == [t |-> "code", a |-> s1b, b |-> c.b, wa |-> c.wa, wb |-> c.wb,
                mode |-> IF HasWant(c) THEN hint ELSE "exec", ndir |-> DirOf(s1b), inl |-> InlOf(s1b)]
  IN pre \o mid \o <<final>>

RECURSIVE PackAll(_, _)
PackAll(C, x) ==
  IF x > Len(C) THEN <<>>
  ELSE (IF C[x].t = "text"
        THEN <<[t |-> "text", a |-> C[x].a, b |-> C[x].b, wa |-> C[x].b + 1, wb |-> C[x].b, mode |-> "none", ndir |-> 0, inl |-> FALSE]>>
        ELSE Package(C[x])) \o PackAll(C, x + 1)

ChunkBad(c) == c.t = "code" /\ (\E j \in c.a..c.b : lines[j].bad)
\* a chunk that does not start with the first line of a statement cannot be parsed by ast (only after a mis-labelling)
ChunkOffSync(c) == c.t = "code" /\ ~lines[c.a].first

Finish ==
  /\ pc = "scan" /\ pos > Len(lines) /\ Len(blocks) >= MinBlocks
  /\ pc' = "done"
  /\ IF skip > 0
     THEN err' = "incomplete" /\ parts' = <<>>
     ELSE LET C == Chunks IN
          IF \E x \in 1..Len(C) : ChunkBad(C[x]) \/ ChunkOffSync(C[x])
          THEN err' = "syntax" /\ parts' = <<>>
          ELSE err' = err /\ parts' = PackAll(C, 1)
  /\ Emit(err', parts')
  /\ UNCHANGED <<blocks, lines, pos, prev, sind, skip, ctq, labels, round, parts1, lines1>>

\* C18: DocTest.format_src(prompts and wants, no numbers) = the source lines as kept in orig_lines (an
\* unprefixed string line has become a "... " line) and the want lines, part after part; parse that again
Formatted ==
  LET keep == SelectSeq([j \in 1..Len(lines) |-> j], LAMBDA j : labels[j] # "text")
  IN [x \in 1..Len(keep) |-> IF lines[keep[x]].k = "raw" THEN [lines[keep[x]] EXCEPT !.k = "p2"]
                              ELSE [lines[keep[x]] EXCEPT !.ind = 0]]
StartReparse ==
  /\ pc = "done" /\ round = 1 /\ err = "none" /\ "Reparse" \in Deviation
  /\ round' = 2 /\ parts1' = parts /\ lines1' = lines
  /\ lines' = Formatted /\ pos' = 1 /\ prev' = "text" /\ sind' = 0 /\ skip' = 0 /\ ctq' = FALSE
  /\ labels' = <<>> /\ pc' = "scan" /\ parts' = <<>>
  /\ UNCHANGED <<blocks, err>>

Next == AddBlock \/ Feed \/ Finish \/ StartReparse
Spec == Init /\ [][Next]_vars

-----------------------------------------------------------------------------
(* Invariants *)

Map(l) == IF l \in {"dsrc", "dcnt"} THEN "src" ELSE l
Done == pc = "done" /\ err = "none"
WellFormed == ~HasF11(IF round = 2 THEN lines1 ELSE lines)

\* C13: every line gets the label the declarative rule gives it
LabelsAreDecl == (Done /\ WellFormed) => LET d == Decl(lines) IN \A j \in 1..Len(lines) : Map(labels[j]) = d[j]

PartEnd(p) == IF p.wb >= p.wa THEN p.wb ELSE p.b
\* C13: the parts tile the docstring in order; each part starts at its recorded first line
PartsPartition == Done =>
  /\ (Len(lines) > 0 => Len(parts) > 0 /\ parts[1].a = 1 /\ PartEnd(parts[Len(parts)]) = Len(lines))
  /\ \A x \in 1..(Len(parts) - 1) : parts[x+1].a = PartEnd(parts[x]) + 1
  /\ \A x \in 1..Len(parts) : parts[x].a <= parts[x].b
\* C13: text is never in an executable part, source and want are where they belong
LabelsMatchParts == Done =>
  \A x \in 1..Len(parts) :
     /\ \A j \in parts[x].a..parts[x].b : Map(labels[j]) = (IF parts[x].t = "text" THEN "text" ELSE "src")
     /\ \A j \in parts[x].wa..parts[x].wb : labels[j] = "want"
\* C01: no statement is cut in two, and a cut only happens at a primary prompt
NoStatementSplit == (Done /\ WellFormed) =>
  \A x \in 1..Len(parts) : parts[x].t = "code" =>
     /\ lines[parts[x].a].first /\ lines[parts[x].a].k = "p1"
     /\ \A y \in 1..Len(parts) : (y # x /\ parts[y].t = "code") =>
           ({lines[j].sid : j \in parts[x].a..parts[x].b} \cap {lines[j].sid : j \in parts[y].a..parts[y].b}) \ {0} = {}   \* 0: bare "..." lines
\* C04/C01: a part carries at most the directives of its first statement, and a trailing directive isolates its statement
DirectiveIsolated == (Done /\ WellFormed) =>
  \A x \in 1..Len(parts) : parts[x].t = "code" =>
     LET sidsWithDir == {lines[j].sid : j \in {j2 \in parts[x].a..parts[x].b : lines[j2].ndir > 0}}
         sids == {lines[j].sid : j \in parts[x].a..parts[x].b} \ {0}
     IN /\ Cardinality(sidsWithDir) <= 1
        /\ (parts[x].inl => Cardinality(sids) = 1)
        /\ (sidsWithDir # {} => lines[parts[x].a].sid \in sidsWithDir)
\* C02/C20: a value can only be compared when the final expression stands alone in its part
EvalPartsSingleStatement == (Done /\ WellFormed) =>
  \A x \in 1..Len(parts) : (parts[x].t = "code" /\ parts[x].mode = "eval") =>
     Cardinality({j \in parts[x].a..parts[x].b : lines[j].first}) = 1
\* well-formed building blocks never produce a parse error (C01 "well formed docstring")
\* known finding F21: an EMPTY line inside a bracketed statement that goes on with "..." lines: the empty line is labelled source,
\* the old-style isolation rule of the grouping then starts a new group at it and the statement is cut in two; when a want follows,
\* the groups are not merged again and the docstring cannot be parsed
HasF21(ls) == \E j \in 1..(Len(ls) - 1) : ls[j].k = "blank" /\ ls[j].sid # 0 /\ ls[j + 1].k \in {"p2", "bare"} /\ ls[j + 1].sid = ls[j].sid
NoSpuriousError == (pc = "done" /\ WellFormed /\ err # "none" /\ ~HasF21(IF round = 2 THEN lines1 ELSE lines)) =>
  \E j \in 1..Len(lines) : lines[j].bad \/ lines[j].cont > 9 \/ (lines[j].k = "p2" /\ lines[j].sid = 0) \/   \* "... text" is read as code
                            (lines[j].k = "raw" /\ ~(\E s \in 1..j : lines[s].tq /\ lines[s].sid = lines[j].sid))

\* C01/C04: the statements that run are exactly the ones no directive disables, each once, in order
RunSetAgrees == (Done /\ WellFormed) => RunSetOpFrom(parts, 1, FALSE) = RunSetDecl(blocks)

\* C20: a doctest in standard syntax whose wants are what the REPL prints (stdout followed by the echoed value)
\* passes here as well.  The value of an expression can be compared only together with its stdout when the part is
\* compiled in single mode (REPL echo); in eval mode stdout and value are separate candidates, so an example that
\* both prints and returns a value (shape "expr"/"mlx2") on a part in eval mode cannot match "stdout + repr":
\* known finding F6.
PrintAndValue(sh) == sh \in {"expr", "mlx2"}
F6Part(p) == p.t = "code" /\ p.wb >= p.wa /\ p.mode = "eval" /\
             \E j \in p.a..p.b : lines[j].first /\ lines[j].sid > 0 /\ PrintAndValue(blocks[lines[j].sid].shape)
HasF6 == \E x \in 1..Len(parts) : F6Part(parts[x])
\* every example with a want has its own part whose last statement is the example's (so that the want is compared with
\* this example's output), and a value is echoed exactly when the standard module echoes it
\* prose directly under an example would be part of its want for the standard module too: such docstrings do not pass there
StdAccepts == \A x \in 1..Len(blocks) : blocks[x].t = "text" => (x = 1 \/ blocks[x-1].t = "blank")
StdCompat == (Done /\ WellFormed /\ round = 1 /\ "StdSyntax" \in Deviation /\ StdAccepts) =>
  /\ ("AllowF6" \in Deviation \/ ~HasF6 \/ \E x \in 1..Len(blocks) : blocks[x].t = "ex" /\ blocks[x].shape = "expr" /\ blocks[x].n > 0)
  /\ \A x \in 1..Len(parts) : (parts[x].t = "code" /\ parts[x].wb >= parts[x].wa) =>
        LET F == {j \in parts[x].a..parts[x].b : lines[j].first}
            last == CHOOSE j \in F : \A j2 \in F : j2 <= j
        IN \* the want belongs to the example directly above it
           /\ blocks[lines[last].sid].t = "ex" /\ blocks[lines[last].sid].n = parts[x].wb - parts[x].wa + 1
           \* value echoed (eval or single) iff the example is an expression
           /\ (lines[last].expr => parts[x].mode \in {"eval", "single"})

\* C18: the formatted source parses to the same executable lines, wants and evaluation modes.
\* A line is identified by what it is (block id, place in its statement), not by where it stands.
LKey(l) == <<l.sid, l.first, l.cont, l.ndir, l.cmt>>
ExecSeq(ls, ps) == LET idx == SelectSeq([j \in 1..Len(ls) |-> j], LAMBDA j : \E x \in 1..Len(ps) : ps[x].t = "code" /\ j \in ps[x].a..ps[x].b)
                   IN [y \in 1..Len(idx) |-> LKey(ls[idx[y]])]
NExecBefore(ls, ps, x) == Cardinality({j \in 1..ps[x].b : \E z \in 1..Len(ps) : ps[z].t = "code" /\ j \in ps[z].a..ps[z].b})
WantSeq(ls, ps) == LET W == SelectSeq([x \in 1..Len(ps) |-> x], LAMBDA x : ps[x].t = "code" /\ ps[x].wb >= ps[x].wa)
                   IN [y \in 1..Len(W) |-> <<NExecBefore(ls, ps, W[y]), ps[W[y]].wb - ps[W[y]].wa + 1, ps[W[y]].mode>>]
ReparseSame == (pc = "done" /\ round = 2 /\ ~HasF11(lines1)) =>
  /\ err = "none"
  /\ ExecSeq(lines, parts) = ExecSeq(lines1, parts1)
  /\ WantSeq(lines, parts) = WantSeq(lines1, parts1)

Bounded == Len(blocks) <= MaxBlocks
=============================================================================
