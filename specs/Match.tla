------------------------------- MODULE Match -------------------------------
(***************************************************************************)
(* Output matching of xdoctest (src/xdoctest/checker.py).                  *)
(*                                                                         *)
(* Texts are sequences of tokens.  Every token stands for a fixed piece of *)
(* concrete text (harness/match_tokens.py):                                *)
(*   A B U R   letters a b u r  (u, b double as string-prefix letters)     *)
(*   SQ DQ     ' and "                                                     *)
(*   SP TAB NL CR   the whitespace characters                              *)
(*   DOT       .                                                           *)
(*   ELL       ... (three dots as one token, so that wants with several    *)
(*             wildcards fit in a small length bound; expanded to          *)
(*             DOT DOT DOT before anything else looks at the text)         *)
(*   ANSI      one colour escape sequence  ESC [ 3 1 m                     *)
(*   BL        the marker <BLANKLINE>                                      *)
(*                                                                         *)
(* OPERATIONAL part: a step-by-step transcription of check_output,         *)
(* normalize, remove_blankline_marker, _check_match and _ellipsis_match,   *)
(* in the order the code applies them.                                     *)
(* DECLARATIVE part: EllipsisDecl (an exists-placement definition of the   *)
(* wildcard) and the property-level statements of C05/C06 as invariants.   *)
(* The `Deviation` constant switches on seeded wrong behaviours; it is {}  *)
(* in every real run and non-empty only in the vacuity self-test.          *)
(***************************************************************************)
EXTENDS Integers, Sequences, FiniteSets, TLC

CONSTANTS Alphabet,      \* set of tokens used to build texts
          MaxGot,        \* max length of got texts
          MaxWant,       \* max length of want texts
          Mode,          \* "flags": C05 sweep over all 32 flag sets; "ellipsis": C06 sweep
          Deviation      \* set of seeded deviations (vacuity control)

FlagNames == {"ELLIPSIS", "NORMALIZE_WHITESPACE", "IGNORE_WHITESPACE",
              "NORMALIZE_REPR", "DONT_ACCEPT_BLANKLINE"}
AllFlagSets == SUBSET FlagNames

WS     == {"SP", "TAB", "NL", "CR"}
Quotes == {"SQ", "DQ"}
Word   == {"A", "B", "U", "R"}                \* tokens matching \w
IsNonWord(c) == c \notin Word                  \* BL = <...> and ANSI start/end with non-word chars

Texts(n) == UNION {[1..k -> Alphabet] : k \in 0..n}

-----------------------------------------------------------------------------
(* generic helpers *)

Tail2(s, i) == SubSeq(s, i, Len(s))            \* suffix starting at index i

RECURSIVE Without(_, _)
Without(s, S) == IF s = <<>> THEN <<>>           \* delete every token that is in S
                 ELSE IF Head(s) \in S THEN Without(Tail(s), S)
                      ELSE <<Head(s)>> \o Without(Tail(s), S)

-----------------------------------------------------------------------------
(* 0. ELL is shorthand for DOT DOT DOT *)
RECURSIVE Expand(_)
Expand(t) == IF t = <<>> THEN <<>>
             ELSE IF Head(t) = "ELL" THEN <<"DOT", "DOT", "DOT">> \o Expand(Tail(t))
                  ELSE <<Head(t)>> \o Expand(Tail(t))

(* 1. utils.strip_ansi *)
StripAnsi(t) == Without(t, {"ANSI"})

(* 2. remove_prefixes(regex (\W|^)[uU]([rR]?['"]) -> \1\2), one letter L at a time. *)
(*    re.sub semantics: leftmost match, non overlapping, scanning resumes   *)
(*    after the consumed text (so a consumed quote cannot serve as the \W   *)
(*    of the next match).                                                   *)
QuoteTailLen(t, j) ==   \* length of [rR]?['"] at index j, 0 if absent
  IF j + 1 <= Len(t) /\ t[j] = "R" /\ t[j+1] \in Quotes THEN 2
  ELSE IF j <= Len(t) /\ t[j] \in Quotes THEN 1 ELSE 0

RECURSIVE RemovePrefixFrom(_, _, _)
RemovePrefixFrom(t, i, L) ==
  IF i > Len(t) THEN <<>>
  ELSE
    LET guard == IF "NoPrefixGuard" \in Deviation THEN TRUE ELSE IsNonWord(t[i])
        q1 == IF guard /\ i + 1 <= Len(t) /\ t[i+1] = L THEN QuoteTailLen(t, i+2) ELSE 0
        q0 == IF (i = 1 \/ "NoPrefixGuard" \in Deviation) /\ t[i] = L THEN QuoteTailLen(t, i+1) ELSE 0
    IN IF q1 > 0 THEN <<t[i]>> \o SubSeq(t, i+2, i+1+q1) \o RemovePrefixFrom(t, i+2+q1, L)
       ELSE IF q0 > 0 THEN SubSeq(t, i+1, i+q0) \o RemovePrefixFrom(t, i+1+q0, L)
       ELSE <<t[i]>> \o RemovePrefixFrom(t, i+1, L)

RemovePrefixes(t) == RemovePrefixFrom(RemovePrefixFrom(t, 1, "U"), 1, "B")

(* 3. remove_blankline_marker: alternatives (?<=\n)BL\n | BL\n | \nBL | BL -> \n *)
RECURSIVE RemoveBL(_, _)
RemoveBL(t, i) ==
  IF i > Len(t) THEN <<>>
  ELSE IF t[i] = "BL" THEN
         IF i + 1 <= Len(t) /\ t[i+1] = "NL" THEN <<"NL">> \o RemoveBL(t, i+2)
         ELSE <<"NL">> \o RemoveBL(t, i+1)
  ELSE IF t[i] = "NL" /\ i + 1 <= Len(t) /\ t[i+1] = "BL" THEN <<"NL">> \o RemoveBL(t, i+2)
  ELSE <<t[i]>> \o RemoveBL(t, i+1)

(* 4. re.sub(r"[ \t]*$", '', MULTILINE): blank runs directly before NL or the end *)
TrailBlank == IF "NoTabInTrailingWs" \in Deviation THEN {"SP"} ELSE {"SP", "TAB"}
BlankRunToEol(t, i) ==   \* t[i] starts (is inside) a run of blanks that reaches NL / end
  \E j \in i..Len(t) : /\ \A k \in i..j : t[k] \in TrailBlank
                       /\ (j = Len(t) \/ t[j+1] = "NL")
StripTrailing(t) ==
  LET keep == {i \in 1..Len(t) : ~BlankRunToEol(t, i)}
      RECURSIVE Build(_)
      Build(i) == IF i > Len(t) THEN <<>>
                  ELSE IF i \in keep THEN <<t[i]>> \o Build(i+1) ELSE Build(i+1)
  IN Build(1)

(* 5. str.rstrip() *)
RECURSIVE RStrip(_)
RStrip(t) == IF t # <<>> /\ t[Len(t)] \in WS THEN RStrip(SubSeq(t, 1, Len(t)-1)) ELSE t
RECURSIVE LStrip(_)
LStrip(t) == IF t # <<>> /\ t[1] \in WS THEN LStrip(Tail(t)) ELSE t

(* 6. visible_text: splitlines(True), drop lines that end with a lone CR *)
RECURSIVE Visible(_, _, _)
Visible(t, i, cur) ==     \* cur = current (unterminated) line
  IF i > Len(t) THEN cur
  ELSE IF t[i] = "NL" THEN cur \o <<"NL">> \o Visible(t, i+1, <<>>)
  ELSE IF t[i] = "CR" THEN
         IF i + 1 <= Len(t) /\ t[i+1] = "NL" THEN cur \o <<"CR", "NL">> \o Visible(t, i+2, <<>>)
         ELSE Visible(t, i+1, <<>>)                       \* line erased
  ELSE Visible(t, i+1, Append(cur, t[i]))

(* 7. ' '.join(text.split()) *)
RECURSIVE Collapse(_, _)
Collapse(t, i) ==    \* t is already stripped on both sides
  IF i > Len(t) THEN <<>>
  ELSE IF t[i] \in WS THEN
         IF i > 1 /\ t[i-1] \in WS THEN Collapse(t, i+1) ELSE <<"SP">> \o Collapse(t, i+1)
  ELSE <<t[i]>> \o Collapse(t, i+1)
CollapseWs(t) == Collapse(LStrip(RStrip(t)), 1)

(* 8. re.sub(r'\s', '') *)
DeleteWs(t) == Without(t, WS)

-----------------------------------------------------------------------------
(* _ellipsis_match *)

EllAt(w, i) == i + 2 <= Len(w) /\ w[i] = "DOT" /\ w[i+1] = "DOT" /\ w[i+2] = "DOT"
HasEll(w) == \E i \in 1..Len(w) : EllAt(w, i)

(* re.split(r'\s*\.\.\.\s*', want): pieces between the leftmost, non-overlapping *)
(* occurrences of '...', each occurrence swallowing the whitespace around it.   *)
RECURSIVE SplitEll(_, _, _)
SplitEll(w, i, cur) ==
  IF i > Len(w) THEN <<cur>>
  ELSE IF EllAt(w, i) THEN <<RStrip(cur)>> \o SplitEll(LStrip(Tail2(w, i+3)), 1, <<>>)
  ELSE SplitEll(w, i+1, Append(cur, w[i]))

OccursAt(p, s, i) == i + Len(p) - 1 <= Len(s) /\ \A j \in 1..Len(p) : s[i+j-1] = p[j]

(* got.find(w, startpos, endpos) with 0-based half-open bounds; -1 if absent *)
Find(g, p, startpos, endpos) ==
  LET cands == {k \in startpos..(endpos - Len(p)) : OccursAt(p, g, k+1)}
  IN IF startpos > endpos \/ cands = {} THEN -1
     ELSE CHOOSE k \in cands : \A k2 \in cands : k <= k2

RECURSIVE GreedyScan(_, _, _, _, _)
GreedyScan(g, ws, k, startpos, endpos) ==
  IF k > Len(ws) THEN TRUE
  ELSE LET bound == IF "NoEndBound" \in Deviation THEN Len(g) ELSE endpos
           f == Find(g, ws[k], startpos, bound)
       IN IF f < 0 THEN FALSE ELSE GreedyScan(g, ws, k+1, f + Len(ws[k]), endpos)

EllipsisGreedyX(g, w) ==
  IF ~HasEll(w) THEN w = g
  ELSE
    LET ws0 == SplitEll(w, 1, <<>>)
        first == ws0[1]
        last  == ws0[Len(ws0)]
        okFirst == first = <<>> \/ OccursAt(first, g, 1)
        okLast  == last = <<>> \/ (Len(last) <= Len(g) /\ OccursAt(last, g, Len(g) - Len(last) + 1))
        startpos == IF first # <<>> THEN Len(first) ELSE 0
        endpos   == IF last # <<>> THEN Len(g) - Len(last) ELSE Len(g)
        lo == IF first # <<>> THEN 2 ELSE 1
        hi == IF last # <<>> THEN Len(ws0) - 1 ELSE Len(ws0)
        mid == SubSeq(ws0, lo, hi)
    IN /\ okFirst
       /\ okLast
       /\ (startpos <= endpos \/ "NoOverlapGuard" \in Deviation)
       /\ GreedyScan(g, mid, 1, startpos, endpos)

(* Declarative wildcard: the got is piece1 X1 piece2 X2 ... pieceN for some texts Xi; *)
(* the first (last) piece is pinned to the start (end) unless it is empty.           *)
RECURSIVE Placeable(_, _, _, _, _)
Placeable(g, ps, k, from, upto) ==   \* pieces k.. fit, in order, inside g[from..upto] (1-based, inclusive)
  IF k > Len(ps) THEN TRUE
  ELSE \E i \in from..(upto + 1) :
          /\ i + Len(ps[k]) - 1 <= upto
          /\ OccursAt(ps[k], g, i)
          /\ Placeable(g, ps, k+1, i + Len(ps[k]), upto)

EllipsisDeclX(g, w) ==
  IF ~HasEll(w) THEN w = g
  ELSE
    LET ps == SplitEll(w, 1, <<>>)
        n == Len(ps)
        first == ps[1]
        last == ps[n]
    IN /\ Len(first) + Len(last) <= Len(g)
       /\ OccursAt(first, g, 1)
       /\ OccursAt(last, g, Len(g) - Len(last) + 1)
       /\ Placeable(g, SubSeq(ps, 2, n-1), 1, Len(first) + 1, Len(g) - Len(last))

-----------------------------------------------------------------------------
(* _check_match, normalize, check_output *)

CheckMatch(g, w, F) == g = w \/ ("ELLIPSIS" \in F /\ EllipsisGreedyX(g, w))

NormRepr(a, b, F) ==
  IF CheckMatch(a, b, F) THEN a
  ELSE IF a # <<>> /\ a[1] = "DQ" /\ a[Len(a)] = "DQ" /\ CheckMatch(SubSeq(a, 2, Len(a)-1), b, F)
       THEN SubSeq(a, 2, Len(a)-1)
  ELSE IF a # <<>> /\ a[1] = "SQ" /\ a[Len(a)] = "SQ" /\ CheckMatch(SubSeq(a, 2, Len(a)-1), b, F)
       THEN SubSeq(a, 2, Len(a)-1)
  ELSE a

Common(t) == Visible(RStrip(StripTrailing(t)), 1, <<>>)

NormSide(t, F, isWant) ==
  LET t1 == RemovePrefixes(StripAnsi(t))
      t2 == IF isWant /\ ("DONT_ACCEPT_BLANKLINE" \notin F \/ "BlanklineAlways" \in Deviation)
            THEN RemoveBL(t1, 1) ELSE t1
      t3 == Common(t2)
      t4 == IF "NORMALIZE_WHITESPACE" \in F \/ "IGNORE_WHITESPACE" \in F THEN CollapseWs(t3) ELSE t3
      t5 == IF "IGNORE_WHITESPACE" \in F THEN DeleteWs(t4) ELSE t4
  IN t5

Normalize(g, w, F) ==     \* returns <<got', want'>>
  LET g5 == NormSide(g, F, FALSE)
      w5 == NormSide(w, F, TRUE)
  IN IF "NORMALIZE_REPR" \in F
     THEN LET g6 == NormRepr(g5, w5, F)
              w6 == NormRepr(w5, g6, F)      \* note the swapped roles, as in the code
          IN <<g6, w6>>
     ELSE <<g5, w5>>

CheckOutputX(g, w, F) ==
  IF w = <<>> THEN TRUE                       \* an empty want disables the check
  ELSE IF g = w THEN TRUE
  ELSE LET n == Normalize(g, w, F) IN CheckMatch(n[1], n[2], F)

(* entry points on token texts (ELL allowed) *)
CheckOutput(g, w, F)  == CheckOutputX(Expand(g), Expand(w), F)
EllipsisGreedy(g, w)  == EllipsisGreedyX(Expand(g), Expand(w))
EllipsisDecl(g, w)    == EllipsisDeclX(Expand(g), Expand(w))
HasEllT(w)            == HasEll(Expand(w))

-----------------------------------------------------------------------------
(* State machine: one got per behaviour; one step computes the whole row.  *)

Gots  == Texts(MaxGot)
Wants == Texts(MaxWant)
EllWants == {w \in Wants : HasEllT(w)}

VARIABLES got, row, phase
vars == <<got, row, phase>>

Init == /\ got \in Gots
        /\ row = <<>>
        /\ phase = "input"

Evaluate ==
  /\ phase = "input"
  /\ phase' = "done"
  /\ got' = got
  /\ row' = IF Mode = "flags"
            THEN [F \in AllFlagSets |-> {w \in Wants : CheckOutput(got, w, F)}]
            ELSE [k \in {"greedy", "on", "off"} |->
                    CASE k = "greedy" -> {w \in EllWants : EllipsisGreedy(got, w)}
                      [] k = "on"     -> {w \in EllWants : CheckOutput(got, w, {"ELLIPSIS"})}
                      [] k = "off"    -> {w \in EllWants : CheckOutput(got, w, {})}]

Next == Evaluate
Spec == Init /\ [][Next]_vars

-----------------------------------------------------------------------------
(* C06 invariants *)
Done == phase = "done"

\* the greedy scan decides exactly the declarative wildcard relation
GreedyIsDecl == (Done /\ Mode = "ellipsis") =>
                   row["greedy"] = {w \in EllWants : EllipsisDecl(got, w)}

\* with ELLIPSIS off (and every other leniency off) '...' is literal:
\* the only dotted wants that match are those equal to got up to the always-on steps
EllipsisOffLiteral == (Done /\ Mode = "ellipsis") =>
                   \A w \in row["off"] : NormSide(Expand(got), {}, FALSE) = NormSide(Expand(w), {}, TRUE)

-----------------------------------------------------------------------------
(* C05 invariants (Mode = "flags") *)

\* identical texts always match
Reflexive == (Done /\ Mode = "flags" /\ Len(got) <= MaxWant) => \A F \in AllFlagSets : got \in row[F]

\* with every leniency off the relation is equality modulo the unconditional steps
StrictF == {"DONT_ACCEPT_BLANKLINE"}
ExactWhenStrict == (Done /\ Mode = "flags") =>
    \A w \in Wants : w # <<>> =>
        ((w \in row[StrictF]) <=> (got = w \/ Common(RemovePrefixes(StripAnsi(got))) = Common(RemovePrefixes(StripAnsi(w)))))

\* switching a leniency on never loses a match.
\* Known exceptions of the code (DESIGN.md section 6), carved out here and present in the
\* *Strict variants, which TLC must refute (vacuity control):
\*   F13  ELLIPSIS with NORMALIZE_REPR when the got itself contains "..."
\*   F14  NORMALIZE_WHITESPACE with NORMALIZE_REPR when the want is quoted and has blanks
\*        directly inside the quotes
\*   F8   accepting <BLANKLINE> when the got contains the literal marker
\*   F15  accepting <BLANKLINE> when the marker touches a carriage return in the want
Leniencies == {"ELLIPSIS", "NORMALIZE_WHITESPACE", "IGNORE_WHITESPACE", "NORMALIZE_REPR"}
HasBL(t) == \E i \in 1..Len(t) : t[i] = "BL"
InnerEdgeWs(w) == LET x == LStrip(RStrip(Expand(w)))
                      n == Len(x)
                  IN /\ n >= 2 /\ x[1] \in Quotes /\ x[n] = x[1]
                     /\ SubSeq(x, 2, n-1) # LStrip(RStrip(SubSeq(x, 2, n-1)))
BLTouchesCR(w) == \E i \in 1..(Len(w)-1) : \/ (w[i] = "BL" /\ w[i+1] = "CR")
                                           \/ (w[i] = "CR" /\ w[i+1] = "BL")
Carve(F, l) == IF l = "ELLIPSIS" /\ "NORMALIZE_REPR" \in F /\ HasEllT(got) THEN Wants
               ELSE IF l = "NORMALIZE_WHITESPACE" /\ "NORMALIZE_REPR" \in F THEN {w \in Wants : InnerEdgeWs(w)}
               ELSE {}
MonotonePositive == (Done /\ Mode = "flags") =>
    \A F \in AllFlagSets : \A l \in Leniencies : (row[F] \ Carve(F, l)) \subseteq row[F \cup {l}]
MonotonePositiveStrict == (Done /\ Mode = "flags") =>      \* expected to FAIL (F13, F14)
    \A F \in AllFlagSets : \A l \in Leniencies : row[F] \subseteq row[F \cup {l}]
MonotoneBlankline == (Done /\ Mode = "flags" /\ ~HasBL(got)) =>
    \A F \in AllFlagSets : {w \in row[F \cup {"DONT_ACCEPT_BLANKLINE"}] : ~BLTouchesCR(w)}
                                \subseteq row[F \ {"DONT_ACCEPT_BLANKLINE"}]
MonotoneBlanklineStrict == (Done /\ Mode = "flags") =>      \* expected to FAIL (F8, F15)
    \A F \in AllFlagSets : row[F \cup {"DONT_ACCEPT_BLANKLINE"}] \subseteq row[F \ {"DONT_ACCEPT_BLANKLINE"}]

\* a differing non-whitespace character without wildcard never matches:
\* the visible (non-blank, non-decoration) content must agree
Core(t, F) == LET v == DeleteWs(Visible(RStrip(StripTrailing(RemovePrefixes(StripAnsi(t)))), 1, <<>>))
              IN Without(v, Quotes)
CoreWant(t, F) == LET t1 == RemovePrefixes(StripAnsi(t))
                      t2 == IF "DONT_ACCEPT_BLANKLINE" \notin F THEN RemoveBL(t1, 1) ELSE t1
                      v == DeleteWs(Visible(RStrip(StripTrailing(t2)), 1, <<>>))
                  IN Without(v, Quotes)
NoWildcard(w) == ~HasEllT(w)
DifferentCoreNeverMatches == (Done /\ Mode = "flags" /\ ~HasEllT(got)) =>
    \A F \in AllFlagSets : \A w \in row[F] :
        (w # <<>> /\ w # got /\ NoWildcard(w)) => Core(got, F) = CoreWant(w, F)

=============================================================================
