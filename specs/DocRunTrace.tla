---------------------------- MODULE DocRunTrace ----------------------------
(***************************************************************************)
(* Trace specification for DocTest.run: validates events recorded from the *)
(* real code (harness/probe.py, one JSON object per line) against the      *)
(* control skeleton and the derived state of DocRun.tla.                    *)
(*                                                                         *)
(* What the doctest's own code does is not logged (did the statement       *)
(* raise? did the want match?) - those choices are read from the events.   *)
(* Everything the run loop DERIVES is constrained at every step:           *)
(*   - parts are visited once, in order, never after a recorded failure    *)
(*     (DocRun: Choose / ExecutedOnceInOrder, C01/C02)                     *)
(*   - an update without own-line directives leaves the persistent state   *)
(*     untouched; without trailing directives the overlay is empty         *)
(*     (DocRun: PartDirectives / PersistentIsFold / OverlayEmptyAtChoose)  *)
(*   - a part is skipped iff SKIP is on or a requirement is unmet; the     *)
(*     module is imported once, before the first part that runs            *)
(*   - stdout is swapped inside the capture and restored at its exit,      *)
(*     whatever happened (DocRun: StdoutRestored, C12)                     *)
(*   - the want is checked against a buffer of exactly the want-less       *)
(*     outputs since the previous want (DocRun: unmatched, C02)            *)
(*   - an expected-exception check leaves the buffer alone (C03)           *)
(*   - the summary agrees with what happened; a run asked to return        *)
(*     returns after its summary (DocRun: ReturnNeverRaises, C09)          *)
(* Runs are laid out one after the other in the log (the harness projects  *)
(* nested runs onto separate traces).                                      *)
(***************************************************************************)
EXTENDS Integers, Sequences, TLC, Json, IOUtils

TraceLog == ndJsonDeserialize(IOEnv.TRACE_FILE)

VARIABLES l, pc, px, nun, nsk, nlog, imported, failed, want, ign, ginit, gsk, gnr, np, onerr, mode, early
vars == <<l, pc, px, nun, nsk, nlog, imported, failed, want, ign, ginit, gsk, gnr, np, onerr, mode, early>>

Ev == TraceLog[l]
Is(e) == l <= Len(TraceLog) /\ Ev.e = e

Init == /\ l = 1 /\ pc = "idle" /\ px = -1 /\ nun = 0 /\ nsk = 0 /\ nlog = 0 /\ imported = FALSE /\ failed = FALSE
        /\ want = FALSE /\ ign = FALSE /\ ginit = FALSE /\ gsk = FALSE /\ gnr = 0 /\ np = 0 /\ onerr = "return" /\ mode = "native"
        /\ early = FALSE

RunEnter ==
  /\ Is("RunEnter") /\ pc = "idle"
  /\ l' = l + 1 /\ pc' = "loop" /\ px' = -1 /\ nun' = 0 /\ nsk' = 0 /\ nlog' = 0 /\ imported' = FALSE /\ failed' = FALSE
  /\ want' = FALSE /\ ign' = FALSE /\ ginit' = FALSE /\ gsk' = FALSE /\ gnr' = 0
  /\ np' = Ev.nparts /\ onerr' = Ev.on_error /\ mode' = Ev.mode /\ early' = FALSE

Update ==
  /\ Is("Update") /\ pc = "loop" /\ ~failed
  /\ Ev.px = px + 1 /\ Ev.px < np                                   \* next part, each once, in order
  /\ LET blockdir == Ev.ndir > 0 /\ ~Ev.inline IN
     /\ (Ev.ok = "true" /\ ginit /\ ~blockdir) => (Ev.gskip = gsk /\ Ev.gnreq = gnr)          \* trailing directives never touch the persistent state
     /\ (Ev.ok = "true" /\ (Ev.ndir = 0 \/ blockdir)) => (Ev.noverlay = 0 /\ Ev.skip = Ev.gskip /\ Ev.nreq = Ev.gnreq)  \* no overlay left over
  /\ px' = Ev.px /\ gsk' = Ev.gskip /\ gnr' = Ev.gnreq /\ ginit' = TRUE /\ want' = Ev.haswant /\ ign' = Ev.ignore_want
  /\ IF Ev.ok # "true" THEN failed' = TRUE /\ pc' = "fail" /\ nsk' = nsk
     ELSE IF Ev.skip \/ Ev.nreq > 0 THEN nsk' = nsk + 1 /\ pc' = "loop" /\ failed' = failed
     ELSE nsk' = nsk /\ pc' = "needcode" /\ failed' = failed
  /\ l' = l + 1 /\ UNCHANGED <<nun, nlog, imported, np, onerr, mode, early>>

HasCode ==
  /\ Is("HasCode") /\ pc = "needcode" /\ Ev.px = px
  /\ IF Ev.res THEN pc' = (IF imported THEN "compile" ELSE "import") /\ nsk' = nsk
     ELSE pc' = "loop" /\ nsk' = nsk + 1
  /\ l' = l + 1 /\ UNCHANGED <<px, nun, nlog, imported, failed, want, ign, ginit, gsk, gnr, np, onerr, mode, early>>

Import ==
  /\ Is("Import") /\ pc = "import"
  /\ IF Ev.ok = "true" THEN imported' = TRUE /\ pc' = "compile" /\ failed' = failed /\ early' = early
     ELSE imported' = imported /\ pc' = "fail" /\ failed' = TRUE /\ early' = TRUE          \* early return through the summary
  /\ l' = l + 1 /\ UNCHANGED <<px, nun, nsk, nlog, want, ign, ginit, gsk, gnr, np, onerr, mode>>

Compile ==
  /\ Is("Compile") /\ pc = "compile" /\ Ev.px = px
  /\ pc' = "capenter" /\ l' = l + 1
  /\ UNCHANGED <<px, nun, nsk, nlog, imported, failed, want, ign, ginit, gsk, gnr, np, onerr, mode, early>>

CapEnter ==
  /\ Is("CapEnter") /\ pc = "capenter" /\ Ev.px = px /\ Ev.swapped
  /\ pc' = "incap" /\ l' = l + 1
  /\ UNCHANGED <<px, nun, nsk, nlog, imported, failed, want, ign, ginit, gsk, gnr, np, onerr, mode, early>>

CapExit ==
  /\ Is("CapExit") /\ pc = "incap" /\ Ev.px = px
  /\ Ev.restored                                                    \* stdout is the original object again, whatever happened
  /\ nlog' = nlog + 1
  /\ IF Ev.internal THEN nun' = nun /\ pc' = "internal"              \* the capture's own bookkeeping raised (DocRun: Internal, observation O6)
     ELSE IF Ev.exc = "none"
     THEN IF want THEN (IF ign THEN nun' = 0 /\ pc' = "loop" ELSE nun' = nun /\ pc' = "check")
                  ELSE nun' = nun + 1 /\ pc' = "loop"
     ELSE /\ nun' = nun
          /\ IF Ev.base \/ Ev.exc \in {"ExitTestException", "Skipped"} THEN pc' = "broke"           \* graceful exit or propagating BaseException
             ELSE IF want THEN pc' = "exccheck" ELSE pc' = "fail"
  /\ failed' = (failed \/ (~Ev.internal /\ Ev.exc # "none" /\ ~Ev.base /\ Ev.exc \notin {"ExitTestException", "Skipped"} /\ ~want))
  /\ l' = l + 1 /\ UNCHANGED <<px, nsk, imported, want, ign, ginit, gsk, gnr, np, onerr, mode, early>>

Check ==
  /\ Is("Check") /\ pc = "check" /\ Ev.px = px
  /\ Ev.nun = nun                                                   \* the buffer holds exactly the want-less outputs since the last want
  /\ IF Ev.ok = "true" THEN nun' = 0 /\ pc' = "loop" /\ failed' = failed
     ELSE nun' = nun /\ pc' = "fail" /\ failed' = TRUE
  /\ l' = l + 1 /\ UNCHANGED <<px, nsk, nlog, imported, want, ign, ginit, gsk, gnr, np, onerr, mode, early>>

ExcCheck ==
  /\ Is("ExcCheck") /\ pc = "exccheck" /\ Ev.px = px
  /\ IF Ev.ok = "true" THEN pc' = "loop" /\ failed' = failed        \* expected exception: buffer untouched, loop continues
     ELSE pc' = "fail" /\ failed' = TRUE
  /\ l' = l + 1 /\ UNCHANGED <<px, nun, nsk, nlog, imported, want, ign, ginit, gsk, gnr, np, onerr, mode, early>>

\* the summary: reached at the end of the loop, after a recorded failure (on_error = return), after a graceful break,
\* or after a compile error (no capture was entered)
PostRun ==
  /\ Is("PostRun")
  /\ \/ pc = "loop" /\ px = np - 1 /\ ~failed                       \* every part was visited
     \/ pc = "fail" /\ onerr = "return"
     \/ pc = "broke"
     \/ pc = "capenter" /\ onerr = "return"                         \* compile() rejected the part
  /\ LET nowfailed == failed \/ pc = "capenter" IN
     /\ Ev.failed = nowfailed
     /\ Ev.nskipped = nsk /\ Ev.nlogged = nlog /\ Ev.nparts = np
     /\ Ev.skipped = (nsk = np)
     /\ Ev.passed = (~nowfailed /\ ~(nsk = np))
     /\ (~nowfailed /\ pc = "loop") => Ev.nun = nun
     /\ (nowfailed /\ pc # "fail") \/ TRUE
  /\ pc' = "posted" /\ l' = l + 1
  /\ UNCHANGED <<px, nun, nsk, nlog, imported, failed, want, ign, ginit, gsk, gnr, np, onerr, mode, early>>

RunExit ==
  /\ Is("RunExit")
  /\ \/ pc = "posted" /\ Ev.kind = "return" /\ (early \/ Ev.ns_empty)          \* a run that wrote its summary returns; namespace cleared
     \/ pc = "fail" /\ onerr = "raise" /\ Ev.kind = "raise"
     \/ pc = "capenter" /\ onerr = "raise" /\ Ev.kind = "raise"
     \/ pc = "broke" /\ Ev.kind = "raise"                                       \* SystemExit / KeyboardInterrupt propagate
     \/ pc = "internal" /\ Ev.kind = "raise"                                    \* "Could not clean traceback", whatever on_error says
     \/ pc = "loop" /\ px = np - 1 /\ nsk = np /\ mode = "pytest" /\ Ev.kind = "raise" /\ Ev.exc = "Skipped"
  /\ pc' = "idle" /\ l' = l + 1
  /\ UNCHANGED <<px, nun, nsk, nlog, imported, failed, want, ign, ginit, gsk, gnr, np, onerr, mode, early>>

Next == RunEnter \/ Update \/ HasCode \/ Import \/ Compile \/ CapEnter \/ CapExit \/ Check \/ ExcCheck \/ PostRun \/ RunExit
Spec == Init /\ [][Next]_vars

\* accepted iff every line was consumed (one state per consumed line plus the initial state)
Matched == TLCGet("stats").diameter - 1
TraceAccepted == /\ PrintT(<<"XDV-MATCHED", Matched, Len(TraceLog)>>)
                 /\ Matched = Len(TraceLog)
=============================================================================
