------------------------------ MODULE Directive ------------------------------
(***************************************************************************)
(* Directive comments: from the text of a comment to the effect on the     *)
(* runtime state.                                                           *)
(*                                                                         *)
(*   directive.Directive.extract      -> Recognised, Inline                 *)
(*   directive._split_opstr           -> Split (token scan with a paren     *)
(*                                       stack)                             *)
(*   directive.parse_directive_optstr -> ParsePiece                         *)
(*   directive._is_requires_satisfied -> SatOp (the if/elif ladder)         *)
(*   Directive.effects + RuntimeState.update -> Apply                       *)
(*                                                                         *)
(* A comment is  '# ' PREFIX OPTIONS  placed on its own line, behind a     *)
(* statement, on a continuation line of a statement - also one that stands *)
(* behind an EMPTY source line (a bare "..." line) of the same statement    *)
(* (placement "afterblank"; the comment scan must not stop at the empty     *)
(* line) -, or inside a string                                              *)
(* literal.  OPTIONS is a sequence of ATOMS separated by SEPARATORS:        *)
(*   atom = [sign, name, args, sp]   sign "+" | "-" | "" ; name as written  *)
(*          (any case); args: sequence of condition ids (REQUIRES only);    *)
(*          sp: blanks sprinkled inside the atom ("+ SKIP", "( a , b )")    *)
(*   separator before an atom: "," | ", " | " " (blanks only)               *)
(*                                                                         *)
(* DECLARATIVE reading (documentation of the option syntax): options are    *)
(* separated by commas, or by blanks in front of a sign; blanks are         *)
(* otherwise ignored; no sign means "+"; names are case-insensitive;        *)
(* unknown names are ignored (with a warning); commas inside parentheses    *)
(* separate arguments; text behind the closing parenthesis is ignored.      *)
(* OPERATIONAL: the scan of _split_opstr over the token sequence, then the  *)
(* string surgery of parse_directive_optstr on each piece.                  *)
(***************************************************************************)
EXTENDS Integers, Sequences, FiniteSets, TLC

CONSTANTS Atoms,       \* alphabet of atoms
          Seps,        \* alphabet of separators
          Prefixes,    \* alphabet of comment prefixes
          Places,      \* alphabet of placements
          MaxAtoms,
          World,       \* [flag, module, envset, envval, platform, osname, impl, pyver]: facts the conditions are judged against
          Deviation

Commands == {"SKIP", "ELLIPSIS", "IGNORE_WANT", "REQUIRES", "NORMALIZE_WHITESPACE"}
Upper(n) == CASE n = "skip" -> "SKIP" [] n = "Skip" -> "SKIP" [] n = "ellipsis" -> "ELLIPSIS" [] n = "requires" -> "REQUIRES" [] OTHER -> n

-----------------------------------------------------------------------------
(* Conditions of REQUIRES.  A condition id names a spelling; Cond(c) gives its structure *)
\*  kind: "flag" | "module" | "env" | "envcmp" | "platform" | "osname" | "impl" | "pyver" | "bogus" | "module2" | "envcmp2" | "envge"
\*  for env: var in {"SET" (non-empty), "EMPTY" (set to ""), "UNSET"}; op "==" | "!="; val "v" (the value of SET) | "w" (another value)
CondKinds == {"flag", "module", "env", "envcmp", "platform", "osname", "impl", "pyver", "bogus", "module2", "envcmp2", "envge"}
CondIds == {"--xdvon", "--xdvoff", "module:os", "module:xdv_nope", "env:SET", "env:EMPTY", "env:UNSET",
            "env:SET==v", "env:SET==w", "env:SET!=v", "env:SET!=w", "env:UNSET==v", "env:UNSET!=v", "env:EMPTY==",
            "here", "HERE", "elsewhere", "posixname", "nt", "cpython", "CPython", "pypy", "py3", "py2",
            "bogus", "module:a:b", "env:SET==v==w", "env:SET>=v"}

\* DECLARATIVE: when is a condition met (documentation of REQUIRES: a command line flag, an existing module, an environment
\* variable that is truthy / equal / different, a platform, os, implementation or python-major tag, any case)
SatDecl(c) ==
  CASE c = "--xdvon" -> TRUE [] c = "--xdvoff" -> FALSE
    [] c = "module:os" -> TRUE [] c = "module:xdv_nope" -> FALSE
    [] c = "env:SET" -> TRUE [] c = "env:EMPTY" -> FALSE [] c = "env:UNSET" -> FALSE
    [] c = "env:SET==v" -> TRUE [] c = "env:SET==w" -> FALSE [] c = "env:SET!=v" -> FALSE [] c = "env:SET!=w" -> TRUE
    [] c = "env:UNSET==v" -> FALSE [] c = "env:UNSET!=v" -> TRUE [] c = "env:EMPTY==" -> TRUE
    [] c \in {"here", "HERE", "posixname", "cpython", "CPython", "py3"} -> TRUE
    [] c \in {"elsewhere", "nt", "pypy", "py2"} -> FALSE
    [] OTHER -> FALSE
ErrDecl(c) == c \in {"bogus", "module:a:b", "env:SET==v==w", "env:SET>=v"}      \* not a condition: the directive is malformed

\* OPERATIONAL: the ladder of _is_requires_satisfied over the structure of the spelling
Struct(c) ==
  CASE c \in {"--xdvon", "--xdvoff"} -> [lead |-> "dash", ncolon |-> 0, nparts |-> 1, op |-> "", tag |-> "", tagclass |-> ""]
    [] c \in {"module:os", "module:xdv_nope"} -> [lead |-> "module", ncolon |-> 1, nparts |-> 1, op |-> "", tag |-> "", tagclass |-> ""]
    [] c = "module:a:b" -> [lead |-> "module", ncolon |-> 2, nparts |-> 1, op |-> "", tag |-> "", tagclass |-> ""]
    [] c \in {"env:SET", "env:EMPTY", "env:UNSET"} -> [lead |-> "env", ncolon |-> 1, nparts |-> 1, op |-> "", tag |-> "", tagclass |-> ""]
    [] c \in {"env:SET==v", "env:SET==w", "env:UNSET==v", "env:EMPTY=="} -> [lead |-> "env", ncolon |-> 1, nparts |-> 3, op |-> "==", tag |-> "", tagclass |-> ""]
    [] c \in {"env:SET!=v", "env:SET!=w", "env:UNSET!=v"} -> [lead |-> "env", ncolon |-> 1, nparts |-> 3, op |-> "!=", tag |-> "", tagclass |-> ""]
    [] c = "env:SET==v==w" -> [lead |-> "env", ncolon |-> 1, nparts |-> 5, op |-> "==", tag |-> "", tagclass |-> ""]
    [] c = "env:SET>=v" -> [lead |-> "env", ncolon |-> 1, nparts |-> 3, op |-> ">=", tag |-> "", tagclass |-> ""]
    [] c \in {"here", "HERE"} -> [lead |-> "", ncolon |-> 0, nparts |-> 1, op |-> "", tag |-> World.platform, tagclass |-> "platform"]
    [] c = "elsewhere" -> [lead |-> "", ncolon |-> 0, nparts |-> 1, op |-> "", tag |-> "otherplatform", tagclass |-> "platform"]
    [] c = "posixname" -> [lead |-> "", ncolon |-> 0, nparts |-> 1, op |-> "", tag |-> World.osname, tagclass |-> "osname"]
    [] c = "nt" -> [lead |-> "", ncolon |-> 0, nparts |-> 1, op |-> "", tag |-> "otheros", tagclass |-> "osname"]
    [] c \in {"cpython", "CPython"} -> [lead |-> "", ncolon |-> 0, nparts |-> 1, op |-> "", tag |-> World.impl, tagclass |-> "impl"]
    [] c = "pypy" -> [lead |-> "", ncolon |-> 0, nparts |-> 1, op |-> "", tag |-> "otherimpl", tagclass |-> "impl"]
    [] c = "py3" -> [lead |-> "", ncolon |-> 0, nparts |-> 1, op |-> "", tag |-> World.pyver, tagclass |-> "pyver"]
    [] c = "py2" -> [lead |-> "", ncolon |-> 0, nparts |-> 1, op |-> "", tag |-> "otherpyver", tagclass |-> "pyver"]
    [] OTHER -> [lead |-> "", ncolon |-> 0, nparts |-> 1, op |-> "", tag |-> "", tagclass |-> "none"]
EnvVar(c) == IF c \in {"env:SET", "env:SET==v", "env:SET==w", "env:SET!=v", "env:SET!=w", "env:SET==v==w", "env:SET>=v"} THEN "SET"
             ELSE IF c \in {"env:EMPTY", "env:EMPTY=="} THEN "EMPTY" ELSE "UNSET"
EnvRhs(c) == IF c \in {"env:SET==v", "env:SET!=v", "env:UNSET==v", "env:UNSET!=v"} THEN "v"
             ELSE IF c = "env:EMPTY==" THEN "" ELSE "w"
EnvGet(var) == IF var = "SET" THEN "v" ELSE IF var = "EMPTY" THEN "" ELSE "<None>"
\* result: "met" | "unmet" | "error"
SatOp(c) ==
  LET s == Struct(c) IN
  IF s.lead = "dash" THEN (IF c = "--xdvon" THEN "met" ELSE "unmet")                                   \* arg in argv
  ELSE IF s.lead = "module" THEN (IF s.ncolon # 1 THEN "error" ELSE IF c = "module:os" THEN "met" ELSE "unmet")
  ELSE IF s.lead = "env" THEN
       IF s.ncolon # 1 THEN "error"
       ELSE IF s.nparts = 1 THEN (IF EnvGet(EnvVar(c)) \notin {"", "<None>"} THEN "met" ELSE "unmet")   \* truthy
       ELSE IF s.nparts = 3 THEN
            IF s.op = "==" THEN (IF EnvGet(EnvVar(c)) = EnvRhs(c) THEN "met" ELSE "unmet")
            ELSE IF s.op = "!=" THEN (IF EnvGet(EnvVar(c)) # EnvRhs(c) THEN "met" ELSE "unmet")
            ELSE "error"                                                                                  \* KeyError('>=')
       ELSE "error"
  ELSE IF s.tagclass = "platform" THEN (IF s.tag = World.platform THEN "met" ELSE "unmet")
  ELSE IF s.tagclass = "osname" THEN (IF s.tag = World.osname THEN "met" ELSE "unmet")
  ELSE IF s.tagclass = "impl" THEN (IF s.tag = World.impl THEN "met" ELSE "unmet")
  ELSE IF s.tagclass = "pyver" THEN (IF s.tag = World.pyver THEN "met" ELSE "unmet")
  ELSE "error"

-----------------------------------------------------------------------------
(* Tokens of an option string *)
Tok(t, v) == [t |-> t, v |-> v]
RECURSIVE ArgToks(_, _, _)
ArgToks(args, k, sp) ==
  IF k > Len(args) THEN <<>>
  ELSE (IF k > 1 THEN <<Tok("COMMA", "")>> ELSE <<>>) \o (IF sp THEN <<Tok("WS", "")>> ELSE <<>>) \o <<Tok("ARG", args[k])>>
       \o (IF sp THEN <<Tok("WS", "")>> ELSE <<>>) \o ArgToks(args, k + 1, sp)
AtomToks(a) ==
  (IF a.sign # "" THEN <<Tok("SIGN", a.sign)>> \o (IF a.sp THEN <<Tok("WS", "")>> ELSE <<>>) ELSE <<>>)
  \o <<Tok("NAME", a.name)>>
  \o (IF a.args # <<>> THEN <<Tok("LP", "")>> \o ArgToks(a.args, 1, a.sp) \o <<Tok("RP", "")>> ELSE <<>>)
SepToks(s) == IF s = " " THEN <<Tok("WS", "")>> ELSE <<Tok("COMMA", "")>>          \* ", " : the comma pattern eats the blanks behind it
RECURSIVE OptToks(_, _, _)
OptToks(atoms, seps, k) ==
  IF k > Len(atoms) THEN <<>>
  ELSE (IF k > 1 THEN SepToks(seps[k - 1]) ELSE <<>>) \o AtomToks(atoms[k]) \o OptToks(atoms, seps, k + 1)

\* OPERATIONAL: _split_opstr.  Scan with a paren stack; a comma, or blanks in front of a sign, split when the stack is empty.
RECURSIVE Scan(_, _, _, _, _)
Scan(toks, k, depth, cur, acc) ==          \* -> sequence of pieces (token sequences)
  IF k > Len(toks) THEN Append(acc, cur)
  ELSE LET t == toks[k]
           splitsHere == \/ (t.t = "COMMA" /\ (depth = 0 \/ "SplitInParens" \in Deviation))
                         \/ (t.t = "WS" /\ depth = 0 /\ k < Len(toks) /\ toks[k + 1].t = "SIGN" /\ "NoBlankSplit" \notin Deviation)
       IN IF splitsHere THEN Scan(toks, k + 1, depth, <<>>, Append(acc, cur))
          ELSE Scan(toks, k + 1, IF t.t = "LP" THEN depth + 1 ELSE IF t.t = "RP" THEN depth - 1 ELSE depth, Append(cur, t), acc)
Split(toks) == Scan(toks, 1, 0, <<>>, <<>>)

\* OPERATIONAL: parse_directive_optstr on one piece: blanks removed, first "(" .. first ")" are the arguments, leading sign, upper-cased name
NoWs(p) == SelectSeq(p, LAMBDA t : t.t # "WS")
FirstIdxOf(p, tt) == LET S == {k \in 1..Len(p) : p[k].t = tt} IN IF S = {} THEN 0 ELSE CHOOSE k \in S : \A j \in S : k <= j
ParsePiece(piece) ==                         \* -> [ok, name, pos, args]
  LET p == NoWs(piece)
      lp == FirstIdxOf(p, "LP")
      rp == FirstIdxOf(p, "RP")
      head == IF lp = 0 THEN p ELSE SubSeq(p, 1, lp - 1)
      args == IF lp = 0 THEN <<>> ELSE LET body == SubSeq(p, lp + 1, (IF rp = 0 THEN Len(p) ELSE rp - 1)) IN
                                       [j \in 1..Len(SelectSeq(body, LAMBDA t : t.t = "ARG")) |-> SelectSeq(body, LAMBDA t : t.t = "ARG")[j].v]
      signed == head # <<>> /\ head[1].t = "SIGN"
      pos == IF signed THEN head[1].v # "-" ELSE ("NegativeDefault" \notin Deviation)
      names == SelectSeq(head, LAMBDA t : t.t = "NAME")
      \* the name is everything behind the sign, glued together (two atoms separated by blanks only become one unknown word)
      name == IF Len(names) = 1 /\ Len(head) = (IF signed THEN 2 ELSE 1)
              THEN (IF "CaseSensitiveNames" \in Deviation THEN names[1].v ELSE Upper(names[1].v)) ELSE "<glued>"
  IN [ok |-> name \in Commands, name |-> name, pos |-> pos, args |-> args]
OpDirectives(atoms, seps) ==
  LET pieces == Split(OptToks(atoms, seps, 1))
      parsed == [k \in 1..Len(pieces) |-> ParsePiece(pieces[k])]
  IN SelectSeq(parsed, LAMBDA d : d.ok)

\* DECLARATIVE: atoms are grouped into options; an atom starts a new option iff it follows a comma or (blanks and it has a sign)
Starts(atoms, seps, k) == k = 1 \/ seps[k - 1] # " " \/ atoms[k].sign # ""
DeclDirectives(atoms, seps) ==
  \* an option is [sign]NAME[(arguments)]; what follows a closing parenthesis up to the next separator is ignored, so a group of
  \* atoms glued by blanks is its first atom when that one has arguments, and an unknown word otherwise
  LET first(k) == Starts(atoms, seps, k)
      alone(k) == k = Len(atoms) \/ Starts(atoms, seps, k + 1)
      d(k) == [ok |-> Upper(atoms[k].name) \in Commands, name |-> Upper(atoms[k].name), pos |-> atoms[k].sign # "-", args |-> atoms[k].args]
      idx == SelectSeq([k \in 1..Len(atoms) |-> k], LAMBDA k : first(k) /\ (alone(k) \/ atoms[k].args # <<>>) /\ d(k).ok)
  IN [j \in 1..Len(idx) |-> d(idx[j])]

-----------------------------------------------------------------------------
(* Recognition of the comment (Directive.extract) *)
PrefixOk(pfx) == pfx \in {"xdoctest: ", "doctest: ", "xdoc: ", "doc: ", "XDOCTEST: ", "Doctest:", "xdoctest:    "}
Recognised(pfx, place) == PrefixOk(pfx) /\ place # "instring"
Inline(place) == place \in {"trailing", "continuation", "afterblank"}

(* Effect on a runtime state [SKIP, ELLIPSIS, REQ] (block directive; the overlay logic is in DocRun.tla) *)
RECURSIVE ApplyArgs(_, _, _, _)
ApplyArgs(req, pos, args, k) ==            \* -> [req, err]
  IF k > Len(args) THEN [req |-> req, err |-> FALSE]
  ELSE LET r == SatOp(args[k]) IN
       IF r = "error" THEN [req |-> req, err |-> TRUE]
       ELSE ApplyArgs(IF r = "met" THEN req ELSE IF pos THEN req \cup {args[k]} ELSE req \ {args[k]}, pos, args, k + 1)
RECURSIVE Apply(_, _, _)
Apply(st, ds, k) ==                        \* -> [st, err]
  IF k > Len(ds) THEN [st |-> st, err |-> FALSE]
  ELSE LET d == ds[k] IN
       IF d.name = "REQUIRES"
       THEN LET r == ApplyArgs(st.REQ, d.pos, d.args, 1) IN
            IF r.err THEN [st |-> st, err |-> TRUE] ELSE Apply([st EXCEPT !.REQ = r.req], ds, k + 1)
       ELSE IF d.name \in {"SKIP", "ELLIPSIS"} THEN Apply([st EXCEPT ![d.name] = d.pos], ds, k + 1)
       ELSE Apply(st, ds, k + 1)
State0 == [SKIP |-> FALSE, ELLIPSIS |-> TRUE, REQ |-> {}]
RunsAfter(st) == ~st.SKIP /\ st.REQ = {}

-----------------------------------------------------------------------------
VARIABLES atoms, seps, pfx, place, pc
vars == <<atoms, seps, pfx, place, pc>>

Init == atoms = <<>> /\ seps = <<>> /\ pfx \in Prefixes /\ place \in Places /\ pc = "build"

AddAtom ==
  /\ pc = "build" /\ Len(atoms) < MaxAtoms
  /\ \E a \in Atoms : atoms' = Append(atoms, a)
  /\ IF atoms = <<>> THEN seps' = seps ELSE \E s \in Seps : seps' = Append(seps, s)
  /\ UNCHANGED <<pfx, place, pc>>

Emit == IF "Emit" \in Deviation
        THEN LET ds == OpDirectives(atoms, seps)
                 r == Apply(State0, ds, 1)
             IN PrintT("XDV " \o ToString(<<atoms, seps, pfx, place, Recognised(pfx, place), Inline(place), ds,
                                            r.err, <<r.st.SKIP, r.st.ELLIPSIS, r.st.REQ>>, RunsAfter(r.st)>>))
        ELSE TRUE
Finish ==
  /\ pc = "build" /\ Len(atoms) >= 1
  /\ pc' = "done" /\ Emit
  /\ UNCHANGED <<atoms, seps, pfx, place>>

Next == AddAtom \/ Finish
Spec == Init /\ [][Next]_vars

-----------------------------------------------------------------------------
(* Invariants *)
\* the scan + string surgery read an option string as the documentation says
SplitIsDecl == pc = "done" => OpDirectives(atoms, seps) = DeclDirectives(atoms, seps)
\* every condition spelling is judged as documented; malformed spellings are errors, never silently met or unmet
ConditionsAreDecl == \A c \in CondIds : IF ErrDecl(c) THEN SatOp(c) = "error" ELSE SatOp(c) = (IF SatDecl(c) THEN "met" ELSE "unmet")
\* a requirement that is met never blocks, one that is unmet blocks until it is removed by the same spelling
ReqMonotone == pc = "done" =>
  LET r == Apply(State0, OpDirectives(atoms, seps), 1) IN
  ~r.err => \A c \in r.st.REQ : ~SatDecl(c) /\ ~ErrDecl(c)
=============================================================================
