--------------------------- MODULE MC_GoogleBlocks ---------------------------
(* Alphabet for the TLC runs over GoogleBlocks.tla *)
EXTENDS GoogleBlocks
L(k, ind) == [k |-> k, ind |-> ind]
AllKinds == {L("tag", 0), L("tag", 1), L("otag", 0), L("text", 0), L("text", 1), L("text", 2), L("src", 0), L("src", 1), L("src", 2), L("blank", 0)}
=============================================================================
