---------------------------- MODULE MC_ModPath ----------------------------
EXTENDS ModPath
All8 == {"none", "file", "dir", "dirfile", "pkg", "pkgfile", "pkgmain", "pkgmainfile"}
\* depth 2, two names per level, every node state
N2 == << <<"a", "p_q">>, <<"a", "b">> >>
S2 == << All8, All8 >>
\* depth 3 below one top-level name (package walks need a package below a plain directory below a package)
N3 == << <<"a">>, <<"b", "p_q">>, <<"a", "c">> >>
S3 == << {"pkg", "pkgmainfile", "dir", "file"}, {"none", "dir", "pkg", "pkgfile", "dirfile"}, {"none", "file", "pkg", "pkgmain"} >>
=============================================================================
