---------------------------- MODULE CollectTrace ----------------------------
(***************************************************************************)
(* Code -> spec for the collector: real modules are abstracted into item   *)
(* lists (kind, nesting depth, decorator class, name id); the visitor of   *)
(* Collect.tla and the declarative inventory are evaluated on them and     *)
(* printed; the harness compares both with what the real static collector  *)
(* (TopLevelVisitor) found in the same file.                               *)
(***************************************************************************)
EXTENDS Collect, Json, IOUtils

Mods == JsonDeserialize(IOEnv.TRACE_FILE)
VARIABLE m
TInit == m = 1 /\ moddoc = NoDoc /\ items = <<>> /\ pc = "trace"
TStep == /\ m <= Len(Mods)
         /\ PrintT("XDV " \o ToString(<<m, Visit(Mods[m].items, 1, [cls |-> 0, clsDepth |-> 0, skip |-> -1], {}), DeclInventory(Mods[m].items)>>))
         /\ m' = m + 1 /\ UNCHANGED <<moddoc, items, pc>>
=============================================================================
