--------------------------- MODULE MC_SearchPath ---------------------------
EXTENDS SearchPath
All8 == {"none", "file", "dir", "dirfile", "pkg", "pkgfile", "pkgmain", "pkgmainfile"}
\* one name per level, depth 2, every node state: 50 trees per entry
NN == << <<"a">>, <<"b">> >>
SS == << All8, All8 >>
\* a smaller family for three entries
SS3 == << {"none", "file", "dir", "pkg", "pkgmainfile"}, {"none", "file", "pkg", "dirfile"} >>
=============================================================================
