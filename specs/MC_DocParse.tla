---------------------------- MODULE MC_DocParse ----------------------------
(* Alphabets of building blocks for the TLC runs over DocParse.tla. *)
EXTENDS DocParse

Txt(ind, n) == [t |-> "text", ind |-> ind, n |-> n, shape |-> "-", style |-> "-", dir |-> "none"]
Blank       == [t |-> "blank", ind |-> 0, n |-> 1, shape |-> "-", style |-> "-", dir |-> "none"]
Bare(ind)   == [t |-> "bare", ind |-> ind, n |-> 1, shape |-> "-", style |-> "-", dir |-> "none"]
P2Txt(ind)  == [t |-> "p2txt", ind |-> ind, n |-> 1, shape |-> "-", style |-> "-", dir |-> "none"]
St(ind, shape, style, dir) == [t |-> "stmt", ind |-> ind, n |-> 0, shape |-> shape, style |-> style, dir |-> dir]

Single == {"one", "expr", "semi", "cmt"}

Multi  == {"ml2", "mlx2", "ml3", "cmp2", "cmp3", "deco3"}
StyleOf(shape) == IF shape = "pair2" THEN {"c"} ELSE IF shape \in Single \cup {"star", "asg", "echo", "prn", "exc"} \cup {"tri3", "braw3", "badone", "trunc2"} THEN {"a"}
                  ELSE IF shape \in {"cmp2", "cmp3", "deco3", "cmpq2"} THEN {"a", "c", "t"} ELSE {"a", "c"}
Stmts(inds, shapes, dirs) == {St(i, s, y, d) : i \in inds, s \in shapes, y \in {"a", "c", "t"}, d \in dirs} \ 
                             {b \in [t : {"stmt"}, ind : inds, n : {0}, shape : shapes, style : {"a", "c", "t"}, dir : dirs] : b.style \notin StyleOf(b.shape)}

\* ---- C13: labelling and partition: every shape and prompt style, two indentation levels, text, blank, bare, "... text"
C13_Blocks == Stmts({0, 1}, Single \cup Multi \cup {"tri3", "pair2", "mlb3"}, {"none"})
              \cup {Txt(i, n) : i \in {0, 1}, n \in {1, 2}} \cup {Blank} \cup {Bare(i) : i \in {0, 1}} \cup {P2Txt(0)}
\* a smaller alphabet for longer docstrings
C13_Core == Stmts({0, 1}, {"one", "expr", "ml2", "cmp2", "tri3"}, {"none"})
            \cup {Txt(0, 1), Txt(1, 1), Txt(1, 2), Blank, Bare(0)}

\* ---- C01: programs (one indentation level; directives in every position)
C01_Blocks == Stmts({0}, Single \cup Multi \cup {"tri3", "pair2", "mlb3"}, {"none"})
              \cup Stmts({0}, {"one", "expr", "ml2", "cmp2", "deco3"}, {"first", "last"})
              \cup {St(0, "cmt", "a", "first"), St(0, "cmt", "a", "neg")}
              \cup {Txt(0, 1), Txt(0, 2), Blank}
              \* an indented example (as under a google tag) whose want is directly followed by a flush-left prompt, and the reverse
              \cup {St(1, "one", "a", "none"), St(1, "expr", "a", "none"), St(1, "cmp2", "c", "none"), Txt(1, 1)}
              \* valid Python the parser cannot read today (known findings F9, F10): kept in the space so that the check reports them
              \cup {St(0, "f9", "c", "none"), St(0, "f9", "a", "none"), St(0, "f10", "c", "none")}

\* ---- C18: formatting (the programs of C01 without the statement that holds an empty line: known finding F21 is C13/C01 business)
C18_Blocks == {b \in C01_Blocks : b.shape # "mlb3"}

\* ---- C19: dump (programs as C01, smaller shape set, plus a star-import statement)
C19_Blocks == Stmts({0}, {"one", "expr", "cmt", "ml2", "ml3", "cmp2", "deco3", "tri3", "star"}, {"none"})
              \cup Stmts({0}, {"one", "cmp2"}, {"last"})
              \cup {St(0, "cmt", "a", "first"), Txt(0, 1), Txt(0, 2), Blank}

\* ---- C20: standard doctest syntax: primary prompts, "..." continuations (with or without a terminating bare "..."),
\*      the want directly under each example, blank lines and prose between examples, one common indentation
Ex(shape, style, n, dir) == [t |-> "ex", ind |-> 0, n |-> n, shape |-> shape, style |-> style, dir |-> dir]
C20_Blocks == {Ex("asg", "a", 0, "none"), Ex("cmt", "a", 0, "none"), Ex("echo", "a", 1, "none"), Ex("prn", "a", 1, "none"), Ex("one", "a", 1, "none"),
               Ex("semi", "a", 2, "none"), Ex("expr", "a", 2, "none"), Ex("exc", "a", 2, "none"), Ex("exc", "a", 3, "none"),
               Ex("ml2", "c", 1, "none"), Ex("mlx2", "c", 2, "none"), Ex("cmp2", "c", 1, "none"), Ex("cmp2", "t", 1, "none"),
               Ex("cmp3", "c", 1, "none"), Ex("deco3", "c", 1, "none"), Ex("deco3", "t", 1, "none"), Ex("ml3", "c", 1, "none"),
               Ex("one", "a", 1, "first"), Ex("echo", "a", 1, "first"), Ex("prn", "a", 2, "none"),
               Ex("one", "a", 1, "opt"), Ex("prn", "a", 2, "opt"), Ex("exc", "a", 2, "opt"),
               \* examples over several lines that print nothing (no want), with and without an option comment
               Ex("cmpq2", "c", 0, "none"), Ex("cmpq2", "c", 0, "opt"), Ex("mlq2", "c", 0, "opt"), Ex("cmpq2", "t", 0, "opt"),
               Txt(0, 1), Blank}

\* ---- C14: malformed building blocks among good ones
C14_Blocks == Stmts({0, 1}, {"one", "expr", "ml2", "cmp2", "tri3", "badone", "trunc2", "braw3"}, {"none"})
              \cup {Txt(0, 1), Txt(1, 1), Blank, Bare(0), P2Txt(0)}
=============================================================================
