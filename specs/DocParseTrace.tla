--------------------------- MODULE DocParseTrace ---------------------------
(***************************************************************************)
(* Code -> spec for the labeller: real docstrings (the repository's own    *)
(* sources and tests) are abstracted line by line into the attributes the  *)
(* labeller reads (kind, indentation, lines still needed until the tokens  *)
(* balance, triple quote) and their REAL labels are recorded.  The Feed    *)
(* action of DocParse.tla must reproduce every recorded labelling, line by *)
(* line; the error transitions must fire exactly where the real parser     *)
(* raised.                                                                 *)
(* Input: JSON list of documents {lines: [...], labels: [...], err: "..."}  *)
(***************************************************************************)
EXTENDS DocParse, Json, IOUtils

Docs == JsonDeserialize(IOEnv.TRACE_FILE)

VARIABLES doc,        \* index of the document being labelled
          bad         \* monitor: documents whose recorded labelling is not the behaviour of Feed: <<doc, line, label by the spec>>
tvars == <<vars, doc, bad>>

TInit ==
  /\ doc = 1 /\ bad = {}
  /\ blocks = <<>> /\ lines = (IF Len(Docs) = 0 THEN <<>> ELSE Docs[1].lines)
  /\ pos = 1 /\ prev = "text" /\ sind = 0 /\ skip = 0 /\ ctq = FALSE
  /\ labels = <<>> /\ err = "none" /\ pc = "scan" /\ parts = <<>>
  /\ round = 1 /\ parts1 = <<>> /\ lines1 = <<>>

\* one labeller step, constrained by the recorded label of that line
TFeed ==
  /\ doc <= Len(Docs) /\ Feed
  /\ LET n == Len(labels') IN
     IF err' = "none" /\ n > Len(labels) /\ (n > Len(Docs[doc].labels) \/ labels'[n] # Docs[doc].labels[n]) /\ ~(\E b \in bad : b[1] = doc)
     THEN bad' = bad \cup {<<doc, n, labels'[n]>>}
     ELSE bad' = bad
  /\ UNCHANGED doc

\* the document is finished: same verdict as the real parser, then the next document
TNextDoc ==
  /\ doc <= Len(Docs)
  /\ \/ pc = "scan" /\ pos > Len(lines)
     \/ pc = "done"
  /\ LET specErr == IF pc = "done" THEN err ELSE IF skip > 0 THEN "incomplete" ELSE "none" IN
     IF specErr # Docs[doc].err /\ ~(\E b \in bad : b[1] = doc) THEN bad' = bad \cup {<<doc, 0, specErr>>} ELSE bad' = bad
  /\ doc' = doc + 1
  /\ lines' = (IF doc + 1 <= Len(Docs) THEN Docs[doc + 1].lines ELSE <<>>)
  /\ pos' = 1 /\ prev' = "text" /\ sind' = 0 /\ skip' = 0 /\ ctq' = FALSE /\ labels' = <<>> /\ err' = "none" /\ pc' = "scan"
  /\ UNCHANGED <<blocks, parts, round, parts1, lines1>>

TReport == doc = Len(Docs) + 1 /\ doc' = doc + 1 /\ PrintT("XDV " \o ToString(bad)) /\ UNCHANGED <<vars, bad>>
TNext == TFeed \/ TNextDoc \/ TReport
TSpec == TInit /\ [][TNext]_tvars

=============================================================================
