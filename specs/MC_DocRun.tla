----------------------------- MODULE MC_DocRun -----------------------------
(* Alphabets and bounds for the TLC runs over DocRun.tla, one group per property. *)
EXTENDS DocRun

NoDirs == {<<>>}
D(n, pos) == [n |-> n, pos |-> pos]
P(b, w) == [body |-> b, want |-> w, dirs |-> <<>>, inline |-> FALSE]
PartSet(bodies, wants, dirseqs, inl) == [body : bodies, want : wants, dirs : dirseqs, inline : inl]

NoOpts == {{}}
TailDefault == {P("execp", "none"), P("evalp", "c_replace")}

\* ---- C02: got/want verdicts
C02_Bodies == {"exec", "execp", "execpp", "eval", "evalp", "evaln", "evalnp", "comment"}
C02_Wants  == {"none", "all", "own", "repr", "str", "c_replace", "c_append", "c_prepend", "c_drop", "c_stale"}
C02_Parts  == PartSet(C02_Bodies, C02_Wants, NoDirs, {FALSE})
              \cup {P("praise", "tb_exact"), P("raise", "tb_stack")}      \* an expected exception (after printing) must not disturb the wants that follow
              \* a want that is not checked (IGNORE_WANT on that statement) still ends the stretch of output later wants refer to
              \cup PartSet({"execp", "evalp"}, {"all", "c_replace"}, {<<D("IGNORE_WANT", TRUE)>>}, {TRUE})

\* ---- C04: directive scoping
C04_DirSeqs1 == {<<D(n, pos)>> : n \in {"SKIP", "REQa", "REQb", "REQmet"}, pos \in BOOLEAN}
C04_Parts == PartSet({"execp"}, {"none", "all"}, {<<>>}, {FALSE})                  \* plain statement, statement with want
             \cup PartSet({"execp"}, {"none", "all"}, C04_DirSeqs1, {TRUE})        \* trailing directive
             \cup PartSet({"comment", "execp"}, {"none"}, C04_DirSeqs1, {FALSE})   \* own-line directive (alone / heading statements)
             \cup {[body |-> "execp", want |-> "none", dirs |-> <<D("SKIP", TRUE), D("REQa", FALSE)>>, inline |-> TRUE],
                   [body |-> "comment", want |-> "none", dirs |-> <<D("SKIP", FALSE), D("REQa", TRUE)>>, inline |-> FALSE]}
\* a core alphabet for longer event sequences
C04_CoreDirs == {<<D(n, pos)>> : n \in {"SKIP", "REQa"}, pos \in BOOLEAN}
C04_Core == PartSet({"execp"}, {"none", "all"}, {<<>>}, {FALSE})
            \cup PartSet({"execp"}, {"none"}, C04_CoreDirs, {TRUE})
            \cup PartSet({"comment"}, {"none"}, C04_CoreDirs \cup {<<D("REQb", TRUE)>>, <<D("REQmet", TRUE)>>}, {FALSE})
C04_Opts == {{}, {<<"SKIP", TRUE>>}, {<<"ELLIPSIS", FALSE>>}, {<<"REQ", {"a"}>>}}      \* last: --options=+REQUIRES(unmet a)

\* ---- C03: exceptions
C03_FlagDirs == {<<D(n, pos)>> : n \in {"IED", "ELLIPSIS", "IGNORE_WANT"}, pos \in BOOLEAN}
C03_Raising == PartSet({"raise", "praise"}, {"none", "nontb"} \cup TbWants, NoDirs, {FALSE})
C03_Parts == C03_Raising
             \cup PartSet({"raise"}, TbWants \cup {"nontb"}, {<<D("IED", TRUE)>>, <<D("ELLIPSIS", FALSE)>>, <<D("IGNORE_WANT", TRUE)>>}, {TRUE})
             \cup PartSet({"comment"}, {"none"}, C03_FlagDirs, {FALSE})
             \cup {P("exec", "none"), P("execp", "none"), P("execp", "all"), P("eval", "repr"),
                   P("exec", "tb_exact"), P("execp", "tb_exact"), P("eval", "tb_exact")}

\* ---- C09: failure kinds
C09_Parts == {P("exec", "none"), P("execp", "none"), P("execp", "all"), P("eval", "repr"), P("evalp", "c_replace"),
              P("raise", "none"), P("praise", "none"), P("raise", "nontb"), P("raise", "tb_type"), P("raise", "tb_exact"),
              P("cerr", "none"), P("cerr", "all"), P("reprbad", "repr"), P("preprbad", "repr"), P("preprbad", "own"), P("reprbad", "none"),
              P("exit", "none"), P("comment", "none"), P("defh", "none"), P("callh", "none"), P("callh", "tb_type"), P("callh", "nontb"),
              [body |-> "execp", want |-> "none", dirs |-> <<D("BADARG", TRUE)>>, inline |-> TRUE],
              [body |-> "comment", want |-> "none", dirs |-> <<D("BADARG", TRUE)>>, inline |-> FALSE],
              [body |-> "comment", want |-> "none", dirs |-> <<D("SKIP", TRUE)>>, inline |-> FALSE]}

\* ---- C12: outcomes x process-global effects (single run part)
C12_Parts == {P("exec", "none"), P("execp", "all"), P("evalp", "c_replace"), P("raise", "none"), P("raise", "tb_exact"),
              P("exit", "none"), P("sysexit", "none"), P("kbint", "none"), P("await", "repr"), P("await", "none"),
              P("swapout", "none"), P("closeout", "none"), P("filters", "none"), P("cerr", "none"),
              [body |-> "comment", want |-> "none", dirs |-> <<D("SKIP", TRUE)>>, inline |-> FALSE]}
=============================================================================
