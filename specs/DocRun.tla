------------------------------- MODULE DocRun -------------------------------
(***************************************************************************)
(* The run loop of one doctest: xdoctest.doctest_example.DocTest.run       *)
(* (lines 685-1000), directive.RuntimeState.update, DoctestPart.check and  *)
(* the summary of _post_run.                                               *)
(*                                                                         *)
(* OPERATIONAL part: one action per code region of the loop, over the same *)
(* state the code keeps (persistent/inline directive state, the buffer of  *)
(* unmatched outputs, logged stdout, skipped parts, exc_info, failed_part).*)
(* The program is chosen lazily: the next part is picked only after the    *)
(* previous one has been processed, so TLC shares prefixes.                *)
(*                                                                         *)
(* DECLARATIVE part: Ref* operators, written from the property texts       *)
(* (C01-C04, C09): directive scoping as a fold, wants defined from the     *)
(* program (never from the buffer), first-failure rule.  The invariants    *)
(* say that the operational outcome equals the reference.                  *)
(*                                                                         *)
(* A part is [body, want, dirs, inline]:                                   *)
(*   body   what the statements of the part do (see BodyKinds)             *)
(*   want   which expected-output text follows (see WantKinds)             *)
(*   dirs   directives carried by the first line of the part               *)
(*   inline TRUE: the directives trail a statement; FALSE: own line        *)
(***************************************************************************)
EXTENDS Integers, Sequences, FiniteSets, TLC

CONSTANTS
  Parts,        \* the alphabet: set of part records the program is built from
  TailParts,    \* parts that may follow a failing part (must never run)
  MaxParts,     \* bound on the number of executed-or-skipped parts
  MinParts,     \* Stop is disabled below this length (for -simulate)
  OnErrors,     \* subset of {"return", "raise"}
  Modes,        \* subset of {"native", "pytest"}
  DefaultOpts,  \* set of default-option sets, each a set of <<key, bool>>
  ImportOks,    \* subset of BOOLEAN: does the pre-import of the module succeed
  Deviation     \* seeded wrong behaviours (vacuity control); {} in real runs

-----------------------------------------------------------------------------
(* Bodies *)
BodyKinds == {"comment",   \* no code at all
              "exec",      \* silent statement(s)
              "execp",     \* non-expression statement(s) printing one line
              "execpp",    \* ... printing two lines
              "eval",      \* expression, silent, value not None
              "evalp",     \* expression that prints one line and has a value
              "evaln",     \* expression, silent, value None
              "evalnp",    \* expression that prints, value None  (print(x))
              "raise",     \* raises an Exception
              "praise",    \* prints one line, then raises
              "exit",      \* raises ExitTestException
              "cerr",      \* accepted by ast.parse, rejected by compile()
              "reprbad",   \* expression whose value has a raising __repr__, silent
              "preprbad",  \* ... that also prints
              "sysexit",   \* raises SystemExit
              "kbint",     \* raises KeyboardInterrupt
              "await",     \* top-level await expression with a value
              "swapout",   \* replaces sys.stdout and does not restore it
              "closeout",  \* closes sys.stdout (the capture stream): reading the captured text back raises inside the
                           \* run loop itself, outside the doctest's code
              "filters",   \* changes the warning filters
              "defh",      \* defines a helper function (several lines), silent
              "callh"}     \* calls the helper of an earlier part, which raises inside the helper

HasCode(b)   == b # "comment"
IsExpr(b)    == b \in {"eval", "evalp", "evaln", "evalnp", "reprbad", "preprbad", "await"}
NOut(b)      == CASE b \in {"execp", "evalp", "evalnp", "praise", "preprbad"} -> 1
                  [] b = "execpp" -> 2
                  [] OTHER -> 0
ValueKind(b) == CASE b \in {"eval", "evalp", "await"} -> "val"
                  [] b \in {"evaln", "evalnp"} -> "none"
                  [] b \in {"reprbad", "preprbad"} -> "badrepr"
                  [] OTHER -> "novalue"
RaisesExc(b) == b \in {"raise", "praise", "callh"}
BaseExc(b)   == b \in {"sysexit", "kbint"}
Internal(b)  == b = "closeout"     \* the run loop's own bookkeeping raises; the traceback holds no doctest frame

(* Output / value tokens.  Every token is <<class, part, index>>. *)
Out(k, b)  == [j \in 1..NOut(b) |-> <<"o", k, j>>]
ReprTok(k) == <<"r", k, 0>>       \* repr(value) of part k ("None" for value None)
StrTok(k)  == <<"s", k, 0>>       \* str(value), different from the repr
Fresh(k)   == <<"x", k, 0>>       \* text that occurs nowhere else
TbTok(k)   == <<"t", k, 0>>       \* a traceback block

(* Wants *)
WantKinds == {"none",
              "all",       \* everything printed since the previous want          (must pass)
              "own",       \* output of this (expression) part only                (must pass)
              "repr",      \* repr of the value                                    (must pass)
              "str",       \* str of the value, differs from repr                  (must fail)
              "c_replace", "c_append", "c_prepend", "c_drop",    \* single corruptions (must fail)
              "c_stale",   \* what was printed BEFORE the previous want, followed by everything since it   (must fail:
                           \* a want - checked, ignored or skipped - ends the stretch of output a later want can refer to)
              "tb_exact",  \* traceback block, final line = the exception          (pass on raising code)
              "tb_stack",  \* same with stack lines in between
              "tb_msg",    \* right type, other message      (pass only under IGNORE_EXCEPTION_DETAIL)
              "tb_ell",    \* right type, message "..."      (pass under ELLIPSIS or IED)
              "tb_type",   \* other type, same message       (never passes)
              "tb_short",  \* unqualified name of a module-qualified exception (pass only under IED)
              "nontb"}     \* text that is not a traceback block: must not hide an exception
TbWants == {"tb_exact", "tb_stack", "tb_msg", "tb_ell", "tb_type", "tb_short"}

(* Directives *)
FlagKeys == {"SKIP", "IGNORE_WANT", "IED", "ELLIPSIS"}
Reqs     == {"a", "b"}            \* two distinct unmet requirement conditions
DirNames == FlagKeys \cup {"REQa", "REQb", "REQmet", "BADARG"}
Dir      == [n : DirNames, pos : BOOLEAN]

GState0 == [SKIP |-> FALSE, IGNORE_WANT |-> FALSE, IED |-> FALSE, ELLIPSIS |-> TRUE, REQ |-> {}]
\* inline overlay: which keys are overridden (has) and with what (val); REQ likewise
IState0 == [has |-> {}, val |-> GState0]

ReqOf(d) == IF d.n = "REQa" THEN "a" ELSE "b"

\* RuntimeState.update for ONE directive (Directive.effects + the action switch).
\* Returns [g, i, err].
ApplyDir(g, i, d, inline) ==
  IF d.n = "BADARG" THEN [g |-> g, i |-> i, err |-> TRUE]                      \* effects() raises
  ELSE IF d.n = "REQmet" THEN [g |-> g, i |-> i, err |-> FALSE]                \* noop effect
  ELSE IF d.n \in {"REQa", "REQb"} THEN
     IF inline THEN
        IF "InlineSetOnEmptyOverlay" \in Deviation /\ "REQ" \notin i.has
        THEN (IF d.pos THEN [g |-> g, i |-> i, err |-> TRUE]                   \* KeyError('REQUIRES') before the fix
                       ELSE [g |-> g, i |-> i, err |-> FALSE])                 \* silently ignored
        ELSE LET base == IF "REQ" \in i.has THEN i.val.REQ ELSE g.REQ          \* copy on first write
                 new  == IF d.pos THEN base \cup {ReqOf(d)} ELSE base \ {ReqOf(d)}
             IN [g |-> g, i |-> [has |-> i.has \cup {"REQ"}, val |-> [i.val EXCEPT !.REQ = new]], err |-> FALSE]
     ELSE [g |-> [g EXCEPT !.REQ = IF d.pos THEN @ \cup {ReqOf(d)} ELSE @ \ {ReqOf(d)}], i |-> i, err |-> FALSE]
  ELSE \* plain flag: assign
     IF inline /\ "InlineToGlobal" \notin Deviation
     THEN [g |-> g, i |-> [has |-> i.has \cup {d.n}, val |-> [i.val EXCEPT ![d.n] = d.pos]], err |-> FALSE]
     ELSE [g |-> [g EXCEPT ![d.n] = d.pos], i |-> i, err |-> FALSE]

RECURSIVE ApplyDirs(_, _, _, _, _)
ApplyDirs(g, i, ds, k, inline) ==
  IF k > Len(ds) THEN [g |-> g, i |-> i, err |-> FALSE]
  ELSE LET r == ApplyDir(g, i, ds[k], inline)
       IN IF r.err THEN r ELSE ApplyDirs(r.g, r.i, ds, k + 1, inline)

Eff(g, i, key) == IF key \in i.has THEN i.val[key] ELSE g[key]
SkipNow(g, i)  == Eff(g, i, "SKIP") \/ Eff(g, i, "REQ") # {}

ApplyDefaults(opts) == [k \in DOMAIN GState0 |->
                          IF \E o \in opts : o[1] = k THEN (CHOOSE o \in opts : o[1] = k)[2] ELSE GState0[k]]

-----------------------------------------------------------------------------
(* Declarative reference, from the property texts                          *)

\* C04: the persistent state before part k is the fold of the block directives of parts 1..k-1;
\* part k itself sees, in addition, its own directives (own-line or trailing).
RECURSIVE FoldBlock(_, _, _)
FoldBlock(p, k, opts) ==       \* persistent state after the block directives of parts 1..k
  IF k = 0 THEN ApplyDefaults(opts)
  ELSE LET g == FoldBlock(p, k - 1, opts)
       IN IF p[k].inline THEN g
          ELSE ApplyDirs(g, IState0, p[k].dirs, 1, FALSE).g
RefStateAt(p, k, opts) ==      \* state in force while part k runs
  LET g == FoldBlock(p, k - 1, opts)
      r == ApplyDirs(g, IState0, p[k].dirs, 1, p[k].inline)
  IN [SKIP |-> Eff(r.g, r.i, "SKIP"), REQ |-> Eff(r.g, r.i, "REQ"),
      IGNORE_WANT |-> Eff(r.g, r.i, "IGNORE_WANT"), IED |-> Eff(r.g, r.i, "IED"),
      ELLIPSIS |-> Eff(r.g, r.i, "ELLIPSIS")]
HasBadDir(part) == \E j \in 1..Len(part.dirs) : part.dirs[j].n = "BADARG"
RefEnabled(p, k, opts) == LET s == RefStateAt(p, k, opts) IN ~s.SKIP /\ s.REQ = {}
RefRuns(p, k, opts) == RefEnabled(p, k, opts) /\ HasCode(p[k].body)

\* C02: wants are texts defined from the program.
\* Since(p,k): output of the parts that ran after the previous want, up to and including k.
IsStdoutWant(w) == w \notin {"none"}
RECURSIVE SinceFrom(_, _, _, _)
SinceFrom(p, j, k, opts) ==    \* outputs of running parts j..k, stopping backwards at a want
  IF j > k THEN <<>>
  ELSE (IF RefRuns(p, j, opts) THEN Out(j, p[j].body) ELSE <<>>) \o SinceFrom(p, j + 1, k, opts)
PrevWant(p, k, opts) ==        \* index of the last running part before k that carries a want (0 if none)
  LET S == {j \in 1..(k-1) : RefRuns(p, j, opts) /\ p[j].want # "none"}
  IN IF S = {} THEN 0 ELSE CHOOSE j \in S : \A j2 \in S : j2 <= j
Since(p, k, opts) == SinceFrom(p, PrevWant(p, k, opts) + 1, k, opts)

DropLast(s) == SubSeq(s, 1, Len(s) - 1)
\* output of the want-less parts in front of the previous want (what that want had at its disposal besides its own part's output)
Stale(p, k, opts) == LET pw == PrevWant(p, k, opts) IN
                     IF pw = 0 THEN <<>> ELSE SinceFrom(p, PrevWant(p, pw, opts) + 1, pw - 1, opts)
WantText(p, k, opts) ==
  LET w == p[k].want
      all == Since(p, k, opts)
      base == IF all # <<>> THEN all ELSE <<ReprTok(k)>>
  IN CASE w = "all"       -> all
       [] w = "own"       -> Out(k, p[k].body)
       [] w = "repr"      -> <<ReprTok(k)>>
       [] w = "str"       -> <<StrTok(k)>>
       [] w = "c_replace" -> <<Fresh(k)>>
       [] w = "c_append"  -> Append(base, Fresh(k))
       [] w = "c_prepend" -> <<Fresh(k)>> \o base
       [] w = "c_drop"    -> DropLast(all)
       [] w = "c_stale"   -> Stale(p, k, opts) \o all
       [] w = "nontb"     -> <<Fresh(k)>>
       [] w \in TbWants   -> <<TbTok(k)>>
       [] OTHER           -> <<>>

\* A want kind is meaningful for a part in its context (generation-time filter):
WantFits(p, k, opts) ==
  LET w == p[k].want
      b == p[k].body
      completes == ~RaisesExc(b) /\ ~BaseExc(b) /\ ~Internal(b) /\ b \notin {"exit", "cerr", "comment"}
  IN CASE w = "none" -> TRUE
       [] w = "all"  -> completes /\ Since(p, k, opts) # <<>>
       [] w = "own"  -> completes /\ IsExpr(b) /\ NOut(b) > 0
       [] w = "repr" -> completes /\ ValueKind(b) \in {"val", "none", "badrepr"}
       [] w = "str"  -> completes /\ ValueKind(b) = "val"
       [] w \in {"c_replace", "c_append", "c_prepend"} ->
                        completes /\ (Since(p, k, opts) # <<>> \/ ValueKind(b) \in {"val", "none"})
       [] w = "c_drop" -> completes /\ Len(Since(p, k, opts)) >= 2
       [] w = "c_stale" -> completes /\ Since(p, k, opts) # <<>> /\ Stale(p, k, opts) # <<>>
                           /\ p[PrevWant(p, k, opts)].want \notin TbWants      \* (an expected-exception check leaves the buffer alone)
       [] w = "nontb"  -> RaisesExc(b)
       [] w \in TbWants -> RaisesExc(b) \/ (w = "tb_exact" /\ completes /\ b \in {"exec", "execp", "eval"})
       [] OTHER -> FALSE

\* C03: does a traceback want accept the raised exception under the flags in force
ExcAccepted(w, st) ==
  CASE w \in {"tb_exact", "tb_stack"} -> TRUE
    [] w = "tb_msg"   -> st.IED
    [] w = "tb_short" -> st.IED
    [] w = "tb_ell"   -> st.ELLIPSIS \/ st.IED
    [] OTHER          -> FALSE

\* Outcome of one running part, by the rules of C02/C03/C09:  "ok" | "gotwant" | "exc" | "exit" |
\* "compile" | "reprfail" | "base"
RefPartOutcome(p, k, opts) ==
  LET b == p[k].body
      w == p[k].want
      st == RefStateAt(p, k, opts)
      text == WantText(p, k, opts)
      passes == \/ text = Since(p, k, opts)                      \* all output since the previous want
                \/ (IsExpr(b) /\ NOut(b) > 0 /\ text = Out(k, b)) \* output of the final expression statement
                \/ (ValueKind(b) \in {"val", "none"} /\ text = <<ReprTok(k)>>)
  IN CASE b = "cerr" -> "compile"
       [] b = "exit" -> "exit"
       [] BaseExc(b) -> "base"
       [] Internal(b) -> "internal"
       [] RaisesExc(b) -> IF w = "none" THEN "exc"
                          ELSE IF w \notin TbWants THEN "exc"          \* a non-traceback want never hides it
                          ELSE IF ExcAccepted(w, st) THEN "ok" ELSE "gotwant"
       [] OTHER -> IF w = "none" \/ st.IGNORE_WANT THEN "ok"
                   ELSE IF ValueKind(b) = "badrepr" /\ (NOut(b) = 0 \/ text # Out(k, b)) THEN "reprfail"   \* C09: a raising repr is a failure
                   ELSE IF passes THEN "ok" ELSE "gotwant"

Fails(o) == o \in {"gotwant", "exc", "compile", "reprfail"}

\* first part at which the run ends early (0 if none), and why
RefStop(p, n, opts, importOk) ==
  LET firstRun == {k \in 1..n : RefRuns(p, k, opts)}
      bad == {k \in 1..n :
                \/ HasBadDir(p[k])
                \/ (RefRuns(p, k, opts) /\ RefPartOutcome(p, k, opts) # "ok")
                \/ (RefRuns(p, k, opts) /\ ~importOk)}
  IN IF bad = {} THEN 0 ELSE CHOOSE k \in bad : \A k2 \in bad : k <= k2
RefStopKind(p, k, opts, importOk) ==
  IF k = 0 THEN "none"
  ELSE IF HasBadDir(p[k]) THEN "directive"
  ELSE IF ~importOk THEN "import"
  ELSE RefPartOutcome(p, k, opts)

\* the parts whose code runs (fully, or up to the raising statement), in order  (C01/C04)
RefExecuted(p, n, opts, importOk) ==
  LET stop == RefStop(p, n, opts, importOk)
      kind == RefStopKind(p, stop, opts, importOk)
      last == IF stop = 0 THEN n
              ELSE IF kind \in {"directive", "import", "compile"} THEN stop - 1 ELSE stop
  IN SelectSeq([k \in 1..last |-> k], LAMBDA k : RefRuns(p, k, opts))

RefVerdict(p, n, opts, importOk) ==
  LET stop == RefStop(p, n, opts, importOk)
      kind == RefStopKind(p, stop, opts, importOk)
      ran  == \E k \in 1..n : RefRuns(p, k, opts)
  IN IF kind = "base" THEN "escaped"
     ELSE IF kind = "internal" THEN "internal"
     ELSE IF kind \in {"gotwant", "exc", "compile", "reprfail", "directive", "import"} THEN "failed"
     ELSE IF ran THEN "passed" ELSE "skipped"      \* nothing ran: skipped, never passed

-----------------------------------------------------------------------------
(* Operational model *)

VARIABLES
  prog,       \* program chosen so far (history)
  wtext,      \* history: the want text (token sequence) of every part of prog, as defined by WantText
  nlive,      \* number of parts that were presented to the loop (the rest is the tail)
  cfgv,       \* [onError, mode, opts, importOk]: configuration of this run
  pc, px,
  g, i,       \* persistent and inline directive state (RuntimeState._global_state/_inline_state)
  unmatched,  \* DocTest._unmatched_stdout
  logged,     \* DocTest.logged_stdout  (part index -> output tokens)
  skipped,    \* DocTest._skipped_parts (set of part indices)
  excInfo,    \* "none" or the kind of recorded failure
  failedPart, \* 0 = None, -1 = '<IMPORT>', else part index
  executed,   \* ghost: sequence of part indices whose code started running
  imported,   \* did_pre_import
  nsBound,    \* doctest namespace holds bindings
  capture,    \* "orig" | "cap": what sys.stdout is
  result      \* "running" | "passed" | "failed" | "skipped" | "raised:<what>"

vars == <<prog, wtext, nlive, cfgv, pc, px, g, i, unmatched, logged, skipped, excInfo, failedPart,
          executed, imported, nsBound, capture, result>>

Init ==
  /\ prog = <<>> /\ wtext = <<>> /\ nlive = 0
  /\ cfgv \in [onError : OnErrors, mode : Modes, opts : DefaultOpts, importOk : ImportOks]
  /\ pc = "start" /\ px = 0
  /\ g = GState0 /\ i = IState0
  /\ unmatched = <<>> /\ logged = <<>> /\ skipped = {}
  /\ excInfo = "none" /\ failedPart = 0 /\ executed = <<>>
  /\ imported = FALSE /\ nsBound = FALSE /\ capture = "orig" /\ result = "running"

\* lines 704-739: reset the per-run logs, build a fresh runtime state from the defaults
RunStart ==
  /\ pc = "start"
  /\ g' = ApplyDefaults(cfgv.opts) /\ i' = IState0
  /\ unmatched' = <<>> /\ logged' = <<>> /\ skipped' = {} /\ excInfo' = "none"
  /\ pc' = "choose"
  /\ UNCHANGED <<prog, wtext, nlive, cfgv, px, failedPart, executed, imported, nsBound, capture, result>>

\* loop head: the next part comes into view (lazy program choice)
Choose ==
  /\ pc = "choose" /\ Len(prog) < MaxParts
  /\ \E part \in Parts :
        /\ prog' = Append(prog, part)
        /\ WantFits(prog', Len(prog'), cfgv.opts)
        /\ wtext' = Append(wtext, WantText(prog', Len(prog'), cfgv.opts))
  /\ nlive' = nlive + 1
  /\ px' = px + 1
  /\ failedPart' = px + 1                         \* "assume part will fail"
  /\ pc' = "directives"
  /\ UNCHANGED <<cfgv, g, i, unmatched, logged, skipped, excInfo, executed, imported, nsBound, capture, result>>

Stop ==
  /\ pc = "choose" /\ Len(prog) >= MinParts
  /\ pc' = "finish"
  /\ UNCHANGED <<prog, wtext, nlive, cfgv, px, g, i, unmatched, logged, skipped, excInfo, failedPart, executed,
                 imported, nsBound, capture, result>>

\* common tail of every except-branch: record, then raise or break
Fail(kind) ==
  /\ excInfo' = kind
  /\ IF cfgv.onError = "raise"
     THEN pc' = "raised" /\ result' = "raised:" \o kind
     ELSE pc' = (IF "ContinueAfterFail" \in Deviation THEN "choose" ELSE "tail") /\ result' = result

\* lines 750-767
PartDirectives ==
  /\ pc = "directives"
  /\ LET part == prog[px]
         cleared == IF "OverlayLeaks" \in Deviation THEN i ELSE IState0      \* _inline_state.clear()
         r == ApplyDirs(g, cleared, part.dirs, 1, part.inline)
     IN IF r.err
        THEN /\ Fail("directive")
             /\ g' = r.g /\ i' = r.i
        ELSE /\ g' = r.g /\ i' = r.i /\ pc' = "skipcheck"
             /\ UNCHANGED <<excInfo, result>>
  /\ UNCHANGED <<prog, wtext, nlive, cfgv, px, unmatched, logged, skipped, failedPart, executed, imported, nsBound, capture>>

\* lines 775-785
SkipByState ==
  /\ pc = "skipcheck" /\ SkipNow(g, i)
  /\ skipped' = skipped \cup {px}
  /\ pc' = "choose"
  /\ UNCHANGED <<prog, wtext, nlive, cfgv, px, g, i, unmatched, logged, excInfo, failedPart, executed, imported, nsBound, capture, result>>
SkipNoCode ==
  /\ pc = "skipcheck" /\ ~SkipNow(g, i) /\ ~HasCode(prog[px].body)
  /\ IF "CommentOnlyRuns" \in Deviation
     THEN skipped' = skipped /\ logged' = logged @@ (px :> <<>>)
     ELSE skipped' = skipped \cup {px} /\ logged' = logged
  /\ pc' = "choose"
  /\ UNCHANGED <<prog, wtext, nlive, cfgv, px, g, i, unmatched, excInfo, failedPart, executed, imported, nsBound, capture, result>>
Proceed ==
  /\ pc = "skipcheck" /\ ~SkipNow(g, i) /\ HasCode(prog[px].body)
  /\ pc' = IF imported THEN "compile" ELSE "import"
  /\ UNCHANGED <<prog, wtext, nlive, cfgv, px, g, i, unmatched, logged, skipped, excInfo, failedPart, executed, imported, nsBound, capture, result>>

\* lines 787-820: the module is imported before the first part that really runs
PreImport ==
  /\ pc = "import"
  /\ IF cfgv.importOk
     THEN /\ imported' = TRUE /\ nsBound' = TRUE /\ pc' = "compile"
          /\ UNCHANGED <<excInfo, failedPart, result>>
     ELSE /\ failedPart' = -1 /\ excInfo' = "import"
          /\ UNCHANGED <<imported, nsBound>>
          /\ IF cfgv.onError = "raise" THEN pc' = "raised" /\ result' = "raised:import"
             ELSE pc' = "tail" /\ result' = result            \* early return through _post_run
  /\ UNCHANGED <<prog, wtext, nlive, cfgv, px, g, i, unmatched, logged, skipped, executed, capture>>

\* lines 822-842 (with the fix: compile errors are recorded like any other failure)
Compile ==
  /\ pc = "compile"
  /\ IF prog[px].body = "cerr"
     THEN IF "CompileEscapes" \in Deviation
          THEN pc' = "raised" /\ result' = "raised:compile" /\ excInfo' = excInfo
          ELSE Fail("compile")
     ELSE pc' = "exec" /\ UNCHANGED <<excInfo, result>>
  /\ UNCHANGED <<prog, wtext, nlive, cfgv, px, g, i, unmatched, logged, skipped, failedPart, executed, imported, nsBound, capture>>

\* DoctestPart.check: the want against every trailing sequence of unmatched outputs + this output
RECURSIVE Concat(_)
Concat(ss) == IF ss = <<>> THEN <<>> ELSE Head(ss) \o Concat(Tail(ss))
CheckWant(text, out, vk, k) ==
  LET trail == IF "LastUnmatchedOnly" \in Deviation
               THEN (IF unmatched = <<>> THEN <<out>> ELSE <<unmatched[Len(unmatched)], out>>)
               ELSE Append(unmatched, out)
      n == Len(trail)
      valtok == IF "StrNotRepr" \in Deviation THEN StrTok(k) ELSE ReprTok(k)
      matches(got) == IF vk \in {"val", "none"}
                      THEN IF got = <<>> THEN text = <<valtok>>
                           ELSE text = got \/ text = <<valtok>>
                      ELSE text = got
  IN \E m \in 1..n : matches(Concat(SubSeq(trail, n - m + 1, n)))
\* a raising repr is hit when the value has to be rendered.  The trailing sequences are tried shortest
\* first and the error is not a got/want error, so only the first candidate (this part's own output)
\* decides: no stdout at all, or stdout that differs from the want
ReprNeeded(text, out) == out = <<>> \/ text # out

\* lines 843-981: capture, execute, check, except ladder, finally
ExecPart ==
  /\ pc = "exec"
  /\ LET part == prog[px]
         b == part.body
         out == Out(px, b)
         text == WantText(prog, px, cfgv.opts)
         st == [IED |-> Eff(g, i, "IED"), ELLIPSIS |-> Eff(g, i, "ELLIPSIS")]
         logOut == logged @@ (px :> out)                 \* finally: logged_stdout[partx] = cap.text
     IN
     /\ executed' = Append(executed, px)
     /\ capture' = IF b \in {"swapout", "closeout"} /\ "NoStdoutRestore" \in Deviation THEN "leaked" ELSE "orig"   \* with cap: ... __exit__
     /\ logged' = logOut
     /\ IF BaseExc(b) THEN                                \* not an Exception: propagates whatever on_error says
           /\ pc' = "raised" /\ result' = "raised:base"
           /\ UNCHANGED <<unmatched, excInfo, failedPart>>
        ELSE IF Internal(b) THEN                          \* "Could not clean traceback": raised whatever on_error says (observation O6)
           /\ pc' = "raised" /\ result' = "raised:internal"
           /\ UNCHANGED <<unmatched, excInfo, failedPart>>
        ELSE IF b = "exit" THEN                           \* ExitTestException: graceful break
           /\ pc' = "finish" /\ UNCHANGED <<unmatched, excInfo, failedPart, result>>
        ELSE IF RaisesExc(b) THEN
           IF part.want = "none" THEN Fail("exc") /\ UNCHANGED <<unmatched, failedPart>>
           ELSE IF part.want \notin TbWants
                THEN (IF "NonTracebackWantHides" \in Deviation
                      THEN pc' = "choose" /\ UNCHANGED <<unmatched, excInfo, failedPart, result>>
                      ELSE Fail("exc") /\ UNCHANGED <<unmatched, failedPart>>)      \* bare raise in check_exception
           ELSE IF ExcAccepted(part.want, st)
                THEN /\ pc' = (IF "BreakAfterExpectedExc" \in Deviation THEN "devtail" ELSE "choose")
                     /\ UNCHANGED <<unmatched, excInfo, failedPart, result>>         \* buffer untouched
                ELSE Fail("gotwant") /\ UNCHANGED <<unmatched, failedPart>>
        ELSE IF part.want = "none" THEN
           /\ unmatched' = (IF "LastUnmatchedOnly" \in Deviation THEN <<out>> ELSE Append(unmatched, out))
           /\ pc' = "choose" /\ UNCHANGED <<excInfo, failedPart, result>>
        ELSE IF Eff(g, i, "IGNORE_WANT") THEN
           /\ unmatched' = <<>> /\ pc' = "choose" /\ UNCHANGED <<excInfo, failedPart, result>>
        ELSE IF ValueKind(b) = "badrepr" /\ ReprNeeded(text, out) THEN
           Fail("reprfail") /\ UNCHANGED <<unmatched, failedPart>>
        ELSE IF CheckWant(text, out, ValueKind(b), px) THEN
           /\ unmatched' = <<>> /\ pc' = "choose" /\ UNCHANGED <<excInfo, failedPart, result>>
        ELSE Fail("gotwant") /\ UNCHANGED <<unmatched, failedPart>>
  /\ UNCHANGED <<prog, wtext, nlive, cfgv, px, g, i, skipped, imported, nsBound>>

\* after a recorded failure (on_error = return) the loop is left; whatever parts follow never run.
\* The tail is part of the program (history) so that the replay can see that it stayed untouched.
TailChoice ==
  /\ pc = "tail"
  /\ \/ prog' = prog /\ wtext' = wtext
     \/ \E t \in TailParts : /\ prog' = Append(prog, t)
                              /\ wtext' = Append(wtext, WantText(prog', Len(prog'), cfgv.opts))
  /\ pc' = IF failedPart = -1 THEN "postrun" ELSE "finish"
  /\ UNCHANGED <<nlive, cfgv, px, g, i, unmatched, logged, skipped, excInfo, failedPart, executed, imported, nsBound, capture, result>>

\* only reachable under a Deviation that leaves the loop although more parts follow: the part that
\* should have been presented to the loop is added to the program so that the reference sees it
DevTail ==
  /\ pc = "devtail"
  /\ \E t \in TailParts : /\ prog' = Append(prog, t)
                           /\ wtext' = Append(wtext, WantText(prog', Len(prog'), cfgv.opts))
  /\ nlive' = nlive + 1
  /\ pc' = "finish"
  /\ UNCHANGED <<cfgv, px, g, i, unmatched, logged, skipped, excInfo, failedPart, executed, imported, nsBound, capture, result>>

\* lines 983-997
Finish ==
  /\ pc = "finish"
  /\ failedPart' = IF excInfo = "none" THEN 0 ELSE failedPart
  /\ IF Cardinality(skipped) = Len(prog) /\ cfgv.mode = "pytest"
     THEN pc' = "raised" /\ result' = "raised:Skipped" /\ nsBound' = nsBound     \* pytest.skip() before _post_run
     ELSE /\ pc' = "done"
          /\ nsBound' = (IF "NoNamespaceClear" \in Deviation THEN nsBound ELSE FALSE)
          /\ result' = IF excInfo # "none" THEN "failed"
                       ELSE IF Cardinality(skipped) = Len(prog) THEN "skipped" ELSE "passed"
  /\ UNCHANGED <<prog, wtext, nlive, cfgv, px, g, i, unmatched, logged, skipped, excInfo, executed, imported, capture>>

\* early return of the import failure: summary only, nothing else
PostRunEarly ==
  /\ pc = "postrun"
  /\ pc' = "done" /\ result' = "failed"
  /\ UNCHANGED <<prog, wtext, nlive, cfgv, px, g, i, unmatched, logged, skipped, excInfo, failedPart, executed, imported, nsBound, capture>>

\* every terminal state is printed once for the replay harness when asked to (used by the -simulate runs; the
\* exhaustive runs read the terminal states from the dump)
Report ==
  /\ pc \in {"done", "raised"} /\ "Emit" \in Deviation
  /\ PrintT("XDV " \o ToString([prog |-> prog, wtext |-> wtext, nlive |-> nlive, cfgv |-> cfgv, pc |-> pc, g |-> g, unmatched |-> unmatched,
                                  logged |-> logged, skipped |-> skipped, excInfo |-> excInfo, failedPart |-> failedPart,
                                  executed |-> executed, result |-> result]))
  /\ pc' = "reported"
  /\ UNCHANGED <<prog, wtext, nlive, cfgv, px, g, i, unmatched, logged, skipped, excInfo, failedPart, executed, imported, nsBound, capture, result>>

Next == Report \/ RunStart \/ Choose \/ Stop \/ PartDirectives \/ SkipByState \/ SkipNoCode \/ Proceed \/ PreImport
        \/ Compile \/ ExecPart \/ TailChoice \/ DevTail \/ Finish \/ PostRunEarly
Spec == Init /\ [][Next]_vars

Terminal == pc \in {"done", "raised"}

-----------------------------------------------------------------------------
(* Invariants *)

NoDup(s) == \A a, b \in 1..Len(s) : a # b => s[a] # s[b]

\* C01/C04: nothing runs twice, what runs is a prefix of the enabled parts, in order
ExecutedOnceInOrder ==
  /\ NoDup(executed)
  /\ \A a, b \in 1..Len(executed) : a < b => executed[a] < executed[b]
  /\ \A a \in 1..Len(executed) : RefRuns(prog, executed[a], cfgv.opts)

\* the overlay never survives into the next part (C04)
OverlayLocal == pc = "directives" => TRUE
OverlayEmptyAtChoose == (pc = "choose" /\ px > 0 /\ ~prog[px].inline) => i.has = {}

\* persistent state = fold of the block directives only (C04)
PersistentIsFold == (pc \in {"skipcheck", "choose"} /\ px > 0 /\ excInfo = "none") => g = FoldBlock(prog, px, cfgv.opts)

\* skip decisions are the declarative ones (C04)
SkippedIsRef == (pc = "choose" /\ excInfo = "none") =>
                  skipped = {k \in 1..nlive : ~RefRuns(prog, k, cfgv.opts)}

\* terminal agreement with the reference (C01, C02, C03, C04, C09)
ExpectedResult(verdict) ==
  IF verdict = "escaped" THEN "raised:base"
  ELSE IF verdict = "internal" THEN "raised:internal"
  ELSE IF verdict = "failed" /\ cfgv.onError = "raise"
       THEN "raised:" \o RefStopKind(prog, RefStop(prog, nlive, cfgv.opts, cfgv.importOk), cfgv.opts, cfgv.importOk)
  ELSE IF verdict = "skipped" /\ cfgv.mode = "pytest" THEN "raised:Skipped"
  ELSE verdict
OutcomeIsRef == Terminal =>
  /\ executed = RefExecuted(prog, nlive, cfgv.opts, cfgv.importOk)
  /\ result = ExpectedResult(RefVerdict(prog, nlive, cfgv.opts, cfgv.importOk))
  /\ (result = "failed" =>
        LET stop == RefStop(prog, nlive, cfgv.opts, cfgv.importOk)
        IN failedPart = (IF RefStopKind(prog, stop, cfgv.opts, cfgv.importOk) = "import" THEN -1 ELSE stop))
  /\ (result \in {"passed", "skipped"} => failedPart = 0)

\* C09: a run asked to return errors never raises for an ordinary failure
\* ("raised:internal": a doctest that closes the capture stream makes the loop's own bookkeeping raise; the loop then gives up
\* with "Could not clean traceback" whatever on_error says.  Sabotage of the capture stream is not one of C09's failure kinds
\* (DESIGN.md section 6.3, observation O6); the body kind is only part of the C12 alphabet, where stdout must still come back)
ReturnNeverRaises == (pc = "raised" /\ cfgv.onError = "return") => result \in {"raised:base", "raised:Skipped", "raised:internal"}

\* C02: nothing ran => skipped, never passed
NothingRanNotPassed == (pc = "done" /\ result = "passed") => executed # <<>>

\* C01: recorded stdout is exactly what the part wrote
LoggedIsOutput == \A k \in DOMAIN logged : logged[k] = Out(k, prog[k].body) /\ \E a \in 1..Len(executed) : executed[a] = k

\* C12 (single run): stdout is the original object at every exit; C11: namespace cleared
StdoutRestored == Terminal => capture = "orig"
NamespaceCleared == pc = "done" /\ failedPart # -1 => ~nsBound

\* state constraint for exhaustive runs
Bounded == Len(prog) <= MaxParts + 1
=============================================================================
