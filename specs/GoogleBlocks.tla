---------------------------- MODULE GoogleBlocks ----------------------------
(***************************************************************************)
(* docstr.docscrape_google.split_google_docblocks and the google half of    *)
(* core.parse_google_docstr_examples: a docstring as a sequence of lines,   *)
(* grouped into a leading text block and tagged blocks (Args:, Example:,    *)
(* Doctest:, ...).  One doctest per Example/Doctest block, in order.        *)
(*                                                                         *)
(* A LINE is [k, ind]:                                                      *)
(*   k    "tag"    a line that reads like a section tag of an example block *)
(*        "otag"   ... of another section (Args:, Returns:, Note:)          *)
(*        "text"   any other text          "src"  a prompt line             *)
(*        "blank"  an empty line                                            *)
(*   ind  indentation level (0 = the base indentation of the docstring)     *)
(* The docstring starts right after the opening quotes with an empty line   *)
(* (line 0, not part of the sequence) and is commonly de-indented.          *)
(*                                                                         *)
(* OPERATIONAL (the loop of split_google_docblocks): a running group id, a  *)
(* flag in_tag and the previous line's indentation; an empty line inherits  *)
(* the indentation of the line before it.  A tag line only counts when it   *)
(* stands at the base indentation AND the next line is deeper, empty or a   *)
(* tag as well (or there is no next line); a tagged block is left at the    *)
(* first line at base indentation whose indentation differs from the line   *)
(* before it.                                                               *)
(* DECLARATIVE (property C07, google style): the doctests are the blocks    *)
(* opened by an example tag, one each, in order; a block holds the tag line *)
(* and the deeper / empty lines that follow it; every line belongs to       *)
(* exactly one group and the groups are in order; the block's offset is     *)
(* the index of its tag line (C08: the doctest starts on the next line).    *)
(***************************************************************************)
EXTENDS Integers, Sequences, FiniteSets, TLC

CONSTANTS LineKinds,    \* alphabet of [k, ind] records
          MaxLines, Deviation

IsTagText(l) == l.k \in {"tag", "otag"}
\* the tag pattern is anchored at column 0: an indented "Example:" is body text
TagShaped(l) == IsTagText(l) /\ (l.ind = 0 \/ "IndentedTags" \in Deviation)

\* indentation used by the loop: empty lines take on the indentation of the line before them (the first line: none before it -> 0)
RECURSIVE TrueInd(_, _)
TrueInd(ls, n) == IF n = 0 THEN 0 ELSE IF ls[n].k = "blank" THEN TrueInd(ls, n - 1) ELSE ls[n].ind

\* OPERATIONAL: group id of every line.  st = [gid, inTag, prev]
ValidTag(ls, n) ==
  /\ TagShaped(ls[n])
  /\ \/ n = Len(ls)
     \/ TrueInd(ls, n + 1) > 0 \/ ls[n + 1].k = "blank" \/ TagShaped(ls[n + 1])
     \/ "NoLookahead" \in Deviation
RECURSIVE Walk(_, _, _, _)
Walk(ls, n, st, acc) ==
  IF n > Len(ls) THEN acc
  ELSE LET ind == TrueInd(ls, n)
           isTagLine == TagShaped(ls[n])
           st1 == IF isTagLine
                  THEN (IF ValidTag(ls, n) THEN [gid |-> st.gid + 1, inTag |-> TRUE, prev |-> ind] ELSE [st EXCEPT !.prev = ind])
                  ELSE IF st.inTag /\ ind # st.prev /\ ind = 0 THEN [gid |-> st.gid + 1, inTag |-> FALSE, prev |-> ind]
                  ELSE [st EXCEPT !.prev = ind]
       IN Walk(ls, n + 1, st1, Append(acc, st1.gid))
GroupIds(ls) == Walk(ls, 1, [gid |-> 0, inTag |-> FALSE, prev |-> 0], <<>>)

\* the blocks: for each group id in order, [first, last, key]; key "example" / "other" / "doc".  Line 0 (the empty line behind the
\* opening quotes) belongs to group 0, so offsets count from it: the offset of a group = index of its first line.
Groups(ls) ==
  LET g == GroupIds(ls)
      ids == {g[n] : n \in 1..Len(ls)} \cup {0}
      first(i) == IF i = 0 THEN 0 ELSE CHOOSE n \in 1..Len(ls) : g[n] = i /\ \A m \in 1..Len(ls) : g[m] = i => n <= m
      last(i) == LET S == {n \in 1..Len(ls) : g[n] = i} IN IF S = {} THEN 0 ELSE CHOOSE n \in S : \A m \in S : m <= n
      key(i) == IF i = 0 THEN "doc"
                ELSE IF ValidTag(ls, first(i)) THEN (IF ls[first(i)].k = "tag" THEN "example" ELSE "other") ELSE "doc"
  IN [i \in ids |-> [first |-> first(i), last |-> last(i), key |-> key(i)]]

\* a group that only holds the single empty line 0 is dropped by the code; nothing else is
ExampleBlocks(ls) ==
  LET G == Groups(ls)
      ids == SelectSeq([i \in 1..Cardinality(DOMAIN G) |-> i - 1], LAMBDA i : i \in DOMAIN G /\ G[i].key = "example")
  IN [j \in 1..Len(ids) |-> G[ids[j]]]

\* does an example block hold a prompt line (then its doctest has code)
HasSrc(ls, b) == \E n \in b.first..b.last : n >= 1 /\ ls[n].k = "src"

-----------------------------------------------------------------------------
VARIABLES lines, pc
vars == <<lines, pc>>
Init == lines = <<>> /\ pc = "build"

\* a docstring is commonly de-indented: its first non-empty line... is at the base (some line has ind 0); a src line is always
\* indented deeper than a tag when it is meant to be in its block - all combinations are generated, the code has to cope
AddLine ==
  /\ pc = "build" /\ Len(lines) < MaxLines
  /\ \E l \in LineKinds : lines' = Append(lines, l)
  /\ UNCHANGED pc

WellFormed(ls) == ls # <<>> /\ (\E n \in 1..Len(ls) : ls[n].k # "blank" /\ ls[n].ind = 0)      \* the common indentation has been removed
                  /\ ls[Len(ls)].k # "blank"

Emit == IF "Emit" \in Deviation
        THEN LET eb == ExampleBlocks(lines) IN
             PrintT("XDV " \o ToString(<<[n \in 1..Len(lines) |-> <<lines[n].k, lines[n].ind>>], GroupIds(lines),
                                          [j \in 1..Len(eb) |-> <<eb[j].first, eb[j].last, HasSrc(lines, eb[j])>>]>>))
        ELSE TRUE
Finish ==
  /\ pc = "build" /\ WellFormed(lines)
  /\ pc' = "done" /\ Emit
  /\ UNCHANGED lines
Next == AddLine \/ Finish
Spec == Init /\ [][Next]_vars

-----------------------------------------------------------------------------
(* Invariants (evaluated on finished docstrings) *)
Done == pc = "done"
\* every line belongs to exactly one group, group ids never decrease and grow by at most one
GroupsInOrder == Done =>
  LET g == GroupIds(lines) IN
  /\ Len(g) = Len(lines)
  /\ \A n \in 1..Len(g) : (IF n = 1 THEN 0 ELSE g[n - 1]) <= g[n] /\ g[n] <= (IF n = 1 THEN 0 ELSE g[n - 1]) + 1
\* DECLARATIVE: an example tag at the base indentation whose next line is deeper, empty or another tag (or that is the last
\* line) opens a block of its own - exactly those lines are the first lines of example blocks, in order
DeclExampleStarts(ls) == SelectSeq([n \in 1..Len(ls) |-> n],
                                   LAMBDA n : ls[n].k = "tag" /\ ls[n].ind = 0
                                              /\ (n = Len(ls) \/ ls[n + 1].k = "blank" \/ ls[n + 1].ind > 0 \/ (IsTagText(ls[n + 1]) /\ ls[n + 1].ind = 0)))
ExampleBlocksAreDecl == Done =>
  LET eb == ExampleBlocks(lines) IN [j \in 1..Len(eb) |-> eb[j].first] = DeclExampleStarts(lines)
\* a block never swallows a later valid tag, and a prompt line indented under an example tag belongs to that tag's block
BlocksDisjoint == Done =>
  LET eb == ExampleBlocks(lines) IN \A a, b \in 1..Len(eb) : a < b => eb[a].last < eb[b].first
SrcUnderTagIsInBlock == Done =>
  \A n \in 2..Len(lines) : (lines[n].k = "src" /\ lines[n].ind > 0 /\ lines[n - 1].k = "tag" /\ lines[n - 1].ind = 0) =>
      \E j \in 1..Len(ExampleBlocks(lines)) : ExampleBlocks(lines)[j].first = n - 1 /\ ExampleBlocks(lines)[j].last >= n
=============================================================================
