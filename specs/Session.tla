------------------------------ MODULE Session ------------------------------
(***************************************************************************)
(* One process that collects the doctests of a module once and then        *)
(*   - runs them through a front end                                       *)
(*       native: runner.doctest_module -> Gather / RunNext / Tally / Exit  *)
(*       pytest: plugin.XDoctestItem.runtest per item  -> PytestItem       *)
(*   - or runs them in an arbitrary history (orders, repetitions, subsets, *)
(*     environment changes between runs)                 -> HistRun, SetEnv *)
(*                                                                         *)
(* A doctest is one of the KINDS below; its outcome when run alone in a    *)
(* fresh process is known by construction (Solo).  The process state that  *)
(* could carry over from one run to the next is explicit: names visible in *)
(* the next doctest's namespace, the globals of the module under test, the *)
(* default directive state (flag + REQUIRES set), the per-object buffer of *)
(* unmatched output.                                                       *)
(***************************************************************************)
EXTENDS Integers, Sequences, FiniteSets, TLC

CONSTANTS Kinds,       \* alphabet of doctest kinds for this run
          MaxDocs, MinDocs,
          Commands,    \* subset of {"all", "list", "named", "namedfunc"}
          Fronts,      \* subset of {"native", "pytest"}
          Opts,        \* subset of {"none", "skip", "noell", "req"}: default directive options given to the front end
                       \* ("req": +REQUIRES of an unmet condition)
          MaxHist,     \* bound on the length of a history (0: front-end mode only)
          Deviation

AllKinds == {"warns", "failcompile", "faildirective", "needell", "pass", "failout", "failexc", "skipall", "skippart", "expexc", "comment", "disabled", "disabledfail",
             "bind", "probe", "rebind", "readg", "leaveskip", "leavereq", "reportstyle", "trail", "swapout", "filters",
             "reqsub", "reqpkg",     \* requires a missing submodule of an existing package / requires that package
             "latenote", "latenotefail",   \* a comment that reads like a force-disable marker on a LATER line: not disabled (passes / fails)
             "bumpfail"}             \* G = G + 1 on the module's global G (1), then wants 3: fails alone - passes if its own earlier binding survived

Disabled(k) == k \in {"disabled", "disabledfail"}
\* outcome of the doctest run alone in a fresh process with environment e
Solo3(k, e, o) ==
  CASE k = "faildirective" -> "failed"                      \* directives are applied before the skip test
    [] o \in {"skip", "req"} -> "skipped"                   \* +SKIP / +REQUIRES(unmet) as default option: nothing runs
    [] k \in {"failout", "failexc", "disabledfail", "failcompile", "faildirective", "bumpfail", "latenotefail"} -> "failed"   \* the last two fail before any part runs
    [] k = "needell" -> (IF o = "noell" THEN "failed" ELSE "passed")   \* want with "..." needs ELLIPSIS
    [] k \in {"skipall", "comment", "reqsub"} -> "skipped"       \* reqsub: its requirement is unmet, nothing runs
    [] k = "trail" -> (IF e = 1 THEN "passed" ELSE "failed")
    [] OTHER -> "passed"
NothingRuns3(k, o) == (o \in {"skip", "req"} /\ k # "faildirective") \/ k \in {"skipall", "comment", "reqsub"}

-----------------------------------------------------------------------------
VARIABLES
  mod,        \* the module: sequence of kinds (history variable, chosen lazily)
  opt,        \* default directive option in force
  mode,       \* "choose" | "front" | "hist" | "done"
  cmd,        \* [c, target]
  front,
  pos,        \* loop index of the front end
  queue,      \* native: the gathered examples (indices)
  verdict,    \* index -> "passed" | "failed" | "skipped"   (only run/reported doctests)
  nP, nF, nS, nT, failedSeq, exitCode, listed,
  \* history mode
  hist,       \* sequence of <<index, env, outcome>>
  env,        \* 0 | 1
  leaked,     \* what earlier doctests left behind for a later doctest to see: names ("N"), a remembered answer ("PKGMISSING")
  modG,       \* value of the module's global G (1 initially)
  defSkip, defReq,  \* pollution of the default directive state
  stale,      \* set of doctest indices whose object still holds unmatched output
  filtErr     \* an earlier doctest left the warning filters at "error"

vars == <<mod, opt, mode, cmd, front, pos, queue, verdict, nP, nF, nS, nT, failedSeq, exitCode, listed, hist, env, leaked, modG, defSkip, defReq, stale, filtErr>>

Solo(k, e) == Solo3(k, e, opt)
NothingRuns(k) == NothingRuns3(k, opt)

Init ==
  /\ mod = <<>> /\ opt \in Opts /\ mode = "choose" /\ cmd = [c |-> "none", target |-> 0] /\ front = "none" /\ pos = 0 /\ queue = <<>>
  /\ verdict = <<>> /\ nP = 0 /\ nF = 0 /\ nS = 0 /\ nT = 0 /\ failedSeq = <<>> /\ exitCode = -1 /\ listed = {}
  /\ hist = <<>> /\ env = 1 /\ leaked = {} /\ modG = 1 /\ defSkip = FALSE /\ defReq = FALSE /\ stale = {} /\ filtErr = FALSE

ChooseDoc ==
  /\ mode = "choose" /\ Len(mod) < MaxDocs
  /\ \E k \in Kinds : mod' = Append(mod, k)
  /\ UNCHANGED <<opt, mode, cmd, front, pos, queue, verdict, nP, nF, nS, nT, failedSeq, exitCode, listed, hist, env, leaked, modG, defSkip, defReq, stale, filtErr>>

StartFront ==
  /\ mode = "choose" /\ Len(mod) >= MinDocs /\ MaxHist = 0
  /\ \E f \in Fronts, c \in Commands :
        /\ front' = f
        /\ IF c \in {"named", "namedfunc"}
           THEN Len(mod) > 0 /\ \E t \in 1..Len(mod) : cmd' = [c |-> c, target |-> t]
           ELSE cmd' = [c |-> c, target |-> 0]
        /\ (f = "pytest" => c = "all")
  /\ mode' = "front" /\ pos' = 0
  /\ UNCHANGED <<mod, opt, queue, verdict, nP, nF, nS, nT, failedSeq, exitCode, listed, hist, env, leaked, modG, defSkip, defReq, stale, filtErr>>

\* ---- native front end (runner.py 283-298, 622-711; __main__.py 172-176)
Gather ==
  /\ mode = "front" /\ front = "native" /\ pos = 0 /\ cmd.c # "list"
  /\ queue' = IF cmd.c = "all"
              THEN SelectSeq([i \in 1..Len(mod) |-> i], LAMBDA i : ~Disabled(mod[i]) \/ "NoDisabledFilter" \in Deviation)
              ELSE <<cmd.target>>                      \* a named doctest runs even if it is force-disabled
  /\ pos' = 1 /\ nT' = Len(queue')
  /\ UNCHANGED <<mod, opt, mode, cmd, front, verdict, nP, nF, nS, failedSeq, exitCode, listed, hist, env, leaked, modG, defSkip, defReq, stale, filtErr>>

List ==
  /\ mode = "front" /\ front = "native" /\ cmd.c = "list"
  /\ listed' = 1..Len(mod) /\ exitCode' = 0 /\ mode' = "done"
  /\ UNCHANGED <<mod, opt, cmd, front, pos, queue, verdict, nP, nF, nS, nT, failedSeq, hist, env, leaked, modG, defSkip, defReq, stale, filtErr>>

RunNext ==
  /\ mode = "front" /\ front = "native" /\ pos >= 1 /\ pos <= Len(queue)
  /\ LET i == queue[pos]
         o == Solo(mod[i], env)
     IN /\ verdict' = verdict @@ (i :> o)
        /\ nP' = nP + (IF o = "passed" THEN 1 ELSE 0)
        /\ nF' = nF + (IF o = "failed" THEN 1 ELSE 0)
        /\ nS' = nS + (IF o = "skipped" THEN 1 ELSE 0)
        /\ failedSeq' = IF o = "failed" /\ "FailedNotRecorded" \notin Deviation THEN Append(failedSeq, i) ELSE failedSeq
  /\ pos' = pos + 1
  /\ UNCHANGED <<mod, opt, mode, cmd, front, queue, nT, exitCode, listed, hist, env, leaked, modG, defSkip, defReq, stale, filtErr>>

NativeExit ==
  /\ mode = "front" /\ front = "native" /\ pos > Len(queue) /\ pos >= 1
  /\ exitCode' = IF nF > (IF "ExitOnlyIfTwoFail" \in Deviation THEN 1 ELSE 0) THEN 1 ELSE 0
  /\ mode' = "done"
  /\ UNCHANGED <<mod, opt, cmd, front, pos, queue, verdict, nP, nF, nS, nT, failedSeq, listed, hist, env, leaked, modG, defSkip, defReq, stale, filtErr>>

\* ---- pytest front end (plugin.py 260 runtest): one item per collected doctest
PytestItem ==
  /\ mode = "front" /\ front = "pytest" /\ pos < Len(mod)
  /\ LET i == pos + 1
         k == mod[i]
         o == IF Disabled(k) /\ "PytestRunsDisabled" \notin Deviation THEN "skipped"        \* pytest.skip for force-disabled
              ELSE IF Solo(k, env) = "failed" THEN "failed"                                  \* run(on_error='raise') raised
              ELSE IF NothingRuns(k) /\ "NoAnythingRanCheck" \notin Deviation THEN "skipped" \* Skipped / nothing ran
              ELSE "passed"
     IN /\ verdict' = verdict @@ (i :> o)
        /\ nF' = nF + (IF o = "failed" THEN 1 ELSE 0)
  /\ pos' = pos + 1
  /\ UNCHANGED <<mod, opt, mode, cmd, front, queue, nP, nS, nT, failedSeq, exitCode, listed, hist, env, leaked, modG, defSkip, defReq, stale, filtErr>>
PytestExit ==
  /\ mode = "front" /\ front = "pytest" /\ pos = Len(mod)
  /\ exitCode' = IF nF > 0 THEN 1 ELSE IF Len(mod) = 0 THEN 5 ELSE 0       \* 5: no tests collected
  /\ mode' = "done"
  /\ UNCHANGED <<mod, opt, cmd, front, pos, queue, verdict, nP, nF, nS, nT, failedSeq, listed, hist, env, leaked, modG, defSkip, defReq, stale, filtErr>>

\* ---- histories (C11): any collected doctest may be run next, again and again; the environment may change
StartHist ==
  /\ mode = "choose" /\ Len(mod) >= MinDocs /\ MaxHist > 0 /\ Len(mod) > 0
  /\ mode' = "hist"
  /\ UNCHANGED <<mod, opt, cmd, front, pos, queue, verdict, nP, nF, nS, nT, failedSeq, exitCode, listed, hist, env, leaked, modG, defSkip, defReq, stale, filtErr>>

SetEnv ==
  /\ mode = "hist" /\ Len(hist) < MaxHist /\ \E i \in 1..Len(mod) : mod[i] = "trail"
  /\ Len(hist) > 0 /\ hist[Len(hist)][1] # 0                      \* no two environment changes in a row
  /\ env' = 1 - env
  /\ hist' = Append(hist, <<0, env', "env">>)
  /\ UNCHANGED <<mod, opt, mode, cmd, front, pos, queue, verdict, nP, nF, nS, nT, failedSeq, exitCode, listed, leaked, modG, defSkip, defReq, stale, filtErr>>

\* DocTest.run on the collected object i with the process as it is now
HistRun ==
  /\ mode = "hist" /\ Len(hist) < MaxHist
  /\ \E i \in 1..Len(mod) :
       LET k == mod[i]
           aliased == "ModuleDictAliased" \in Deviation          \* namespace is the module dict instead of a copy
           \* directive state of this run: deepcopy(DEFAULT_RUNTIME_STATE) + options
           skippedByDefault == defSkip \/ defReq
           \* unmatched output of an earlier run of the same object is dropped at the start of a run
           staleNow == i \in stale /\ "NoUnmatchedReset" \in Deviation
           o == IF skippedByDefault THEN "skipped"
                ELSE IF k = "probe" /\ "N" \in leaked THEN "failed"
                ELSE IF k = "readg" /\ modG # 1 THEN "failed"
                ELSE IF k = "trail" /\ env = 0 /\ staleNow THEN "passed"
                ELSE IF k = "warns" /\ filtErr THEN "failed"                 \* its warning became an exception
                ELSE IF k = "reqpkg" /\ "PKGMISSING" \in leaked THEN "skipped" \* an earlier negative answer was recorded for the package too
                ELSE IF k = "bumpfail" /\ i \in stale THEN "passed"            \* the namespace of its failed earlier run was still there
                ELSE Solo(k, env)
       IN /\ hist' = Append(hist, <<i, env, o>>)
          /\ leaked' = IF k = "bind" /\ (aliased \/ "NoNamespaceIsolation" \in Deviation) /\ ~skippedByDefault THEN leaked \cup {"N"}
                       ELSE IF k = "reqsub" /\ "NegativeAnswerSpreads" \in Deviation /\ ~defSkip THEN leaked \cup {"PKGMISSING"}
                       ELSE leaked
          /\ modG' = IF k = "rebind" /\ aliased /\ ~skippedByDefault THEN 5 ELSE modG
          /\ defSkip' = IF k = "leaveskip" /\ "SharedRunstate" \in Deviation THEN TRUE ELSE defSkip
          /\ defReq' = IF k = "leavereq" /\ "ShallowDefaults" \in Deviation THEN TRUE ELSE defReq
          /\ filtErr' = (filtErr \/ (k = "filters" /\ "NoFilterRestore" \in Deviation /\ ~skippedByDefault))
          /\ stale' = IF k = "bumpfail" /\ "NamespaceSurvivesFailure" \in Deviation /\ ~skippedByDefault THEN stale \cup {i}
                      ELSE IF k = "trail" /\ env = 1 /\ ~skippedByDefault THEN stale \cup {i}
                      ELSE IF k = "trail" THEN stale \ {i} ELSE stale
  /\ UNCHANGED <<mod, opt, mode, cmd, front, pos, queue, verdict, nP, nF, nS, nT, failedSeq, exitCode, listed, env>>

EmitIt == IF "Emit" \in Deviation
          THEN PrintT("XDV " \o ToString(<<mod, opt, cmd, front, hist, verdict, <<nP, nF, nS, nT>>, failedSeq, exitCode, listed>>))
          ELSE TRUE
EndHist ==
  /\ mode = "hist" /\ Len(hist) > 0 /\ hist[Len(hist)][1] # 0
  /\ mode' = "done"
  /\ UNCHANGED <<mod, opt, cmd, front, pos, queue, verdict, nP, nF, nS, nT, failedSeq, exitCode, listed, hist, env, leaked, modG, defSkip, defReq, stale, filtErr>>

Emitted == mode = "done" /\ mode' = "emitted" /\ EmitIt
           /\ UNCHANGED <<mod, opt, cmd, front, pos, queue, verdict, nP, nF, nS, nT, failedSeq, exitCode, listed, hist, env, leaked, modG, defSkip, defReq, stale, filtErr>>

Next == ChooseDoc \/ StartFront \/ Gather \/ List \/ RunNext \/ NativeExit \/ PytestItem \/ PytestExit
        \/ StartHist \/ SetEnv \/ HistRun \/ EndHist \/ Emitted
Spec == Init /\ [][Next]_vars

-----------------------------------------------------------------------------
(* Invariants *)
Done == mode \in {"done", "emitted"}

\* C10: 'all' runs every doctest that is not force-disabled exactly once; a named one runs exactly that doctest
RunSetRight == (Done /\ front = "native" /\ cmd.c # "list") =>
  /\ DOMAIN verdict = (IF cmd.c = "all" THEN {i \in 1..Len(mod) : ~Disabled(mod[i])} ELSE {cmd.target})
  /\ \A a, b \in 1..Len(queue) : a # b => queue[a] # queue[b]
\* C10: the tallies add up and agree with the outcomes
TalliesAddUp == (Done /\ front = "native" /\ cmd.c # "list") =>
  /\ nP + nF + nS = nT /\ nT = Cardinality(DOMAIN verdict)
  /\ nP = Cardinality({i \in DOMAIN verdict : Solo(mod[i], env) = "passed"})
  /\ nF = Cardinality({i \in DOMAIN verdict : Solo(mod[i], env) = "failed"})
  /\ nS = Cardinality({i \in DOMAIN verdict : Solo(mod[i], env) = "skipped"})
  /\ {failedSeq[x] : x \in 1..Len(failedSeq)} = {i \in DOMAIN verdict : Solo(mod[i], env) = "failed"}
  /\ Len(failedSeq) = nF
\* C10/C15: non-zero exit status iff something failed
ExitIffFailed == (Done /\ front # "none" /\ cmd.c # "list" /\ Len(mod) > 0) =>
  /\ ((exitCode # 0) <=> (\E i \in DOMAIN verdict : verdict[i] = "failed"))
  /\ (front = "native" => \A i \in DOMAIN verdict : verdict[i] = Solo(mod[i], env))
ListNamesAll == (Done /\ cmd.c = "list") => listed = 1..Len(mod)
\* C15: pytest reports every collected doctest; same verdict as the solo outcome, force-disabled ones skipped
PytestVerdicts == (Done /\ front = "pytest") =>
  /\ DOMAIN verdict = 1..Len(mod)
  /\ \A i \in 1..Len(mod) : verdict[i] = (IF Disabled(mod[i]) THEN "skipped" ELSE Solo(mod[i], env))
\* C11: every run of a history has the outcome the doctest has alone
Isolation == \A x \in 1..Len(hist) : hist[x][1] # 0 => hist[x][3] = Solo(mod[hist[x][1]], hist[x][2])
ModuleGlobalsKept == modG = 1 /\ ~filtErr
DefaultsKept == ~defSkip /\ ~defReq
=============================================================================
