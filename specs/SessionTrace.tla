---------------------------- MODULE SessionTrace ----------------------------
(***************************************************************************)
(* Trace specification for one native-runner session (one call of          *)
(* runner.doctest_module, optionally under __main__.main): validates the   *)
(* events recorded from the real code (harness/probe.py, session part)     *)
(* against the native front end of Session.tla:                            *)
(*                                                                         *)
(*   Session.tla      events                                               *)
(*   ChooseDoc        Collect(i, disabled, named)   one per collected      *)
(*                                                   doctest, in order      *)
(*   Gather           Gather(idxs) | Dump(idxs)     the doctests selected   *)
(*   RunNext          Run(i, outcome)               one per selected        *)
(*                                                   doctest, in order      *)
(*   (tallies)        Tally(nP, nF, nS, nT, failed)                         *)
(*   List             (no event: the session returns action = list)        *)
(*   NativeExit       SessExit(kind, action, nfailed) ; MainExit(code)      *)
(*                                                                         *)
(* The outcome of a doctest is read from the event (what its code did is   *)
(* the business of DocRunTrace.tla); everything the runner DERIVES from    *)
(* the outcomes is constrained at every step:                              *)
(*   - `all` / `dump` select exactly the collected doctests that are not   *)
(*     force-disabled, any other command exactly the doctests it names     *)
(*     (force-disabled or not), in collection order      (RunSetRight)     *)
(*   - only when nothing is selected may the runner fall back to objects   *)
(*     that were not collected (zero-argument functions) (ZeroArgFallback) *)
(*   - every selected doctest is run once, in order; Ctrl-C stops the loop *)
(*     and still produces the tallies; any other exception propagates      *)
(*   - passed + failed + skipped = number run, n_total = number selected,  *)
(*     the failed list is the failed doctests in order   (TalliesAddUp)    *)
(*   - the summary carries n_failed; the command line entry point returns  *)
(*     a non-zero process status iff n_failed > 0        (ExitIffFailed)   *)
(* Sessions are laid out one after the other in the log (the harness       *)
(* projects nested sessions onto separate traces).                         *)
(***************************************************************************)
EXTENDS Integers, Sequences, TLC, Json, IOUtils

TraceLog == ndJsonDeserialize(IOEnv.TRACE_FILE)

VARIABLES l, pc, cmd, dis, named, queue, pos, nP, nF, nS, failedSeq
vars == <<l, pc, cmd, dis, named, queue, pos, nP, nF, nS, failedSeq>>

Ev == TraceLog[l]
Is(e) == l <= Len(TraceLog) /\ Ev.e = e

Init == /\ l = 1 /\ pc = "idle" /\ cmd = "none" /\ dis = <<>> /\ named = <<>> /\ queue = <<>> /\ pos = 0
        /\ nP = 0 /\ nF = 0 /\ nS = 0 /\ failedSeq = <<>>

SessEnter ==
  /\ Is("SessEnter") /\ pc \in {"idle", "exited"}
  /\ pc' = "entered" /\ cmd' = "none" /\ dis' = <<>> /\ named' = <<>> /\ queue' = <<>> /\ pos' = 0
  /\ nP' = 0 /\ nF' = 0 /\ nS' = 0 /\ failedSeq' = <<>> /\ l' = l + 1

Command ==
  /\ Is("Command") /\ pc = "entered"
  /\ cmd' = (IF Ev.cmd = "none" THEN "list" ELSE Ev.cmd)         \* no command: the runner lists
  /\ pc' = "collect" /\ l' = l + 1
  /\ UNCHANGED <<dis, named, queue, pos, nP, nF, nS, failedSeq>>

Collect ==
  /\ Is("Collect") /\ pc = "collect"
  /\ Ev.i = Len(dis) + 1
  /\ dis' = Append(dis, Ev.disabled) /\ named' = Append(named, Ev.named)
  /\ l' = l + 1 /\ UNCHANGED <<pc, cmd, queue, pos, nP, nF, nS, failedSeq>>

Indices == [i \in 1..Len(dis) |-> i]
Expected == IF cmd \in {"all", "dump"}
            THEN SelectSeq(Indices, LAMBDA i : ~dis[i])
            ELSE SelectSeq(Indices, LAMBDA i : named[i])
\* the selection is the expected one; only an empty selection may be replaced by objects outside the collection
SelectionOK(idxs) == IF Expected # <<>> THEN idxs = Expected
                     ELSE \A x \in 1..Len(idxs) : idxs[x] = 0

Gather ==
  /\ Is("Gather") /\ pc = "collect" /\ cmd \notin {"list", "dump"}
  /\ SelectionOK(Ev.idxs)
  /\ queue' = Ev.idxs /\ pos' = 1 /\ pc' = "running" /\ l' = l + 1
  /\ UNCHANGED <<cmd, dis, named, nP, nF, nS, failedSeq>>

Dump ==
  /\ Is("Dump") /\ pc = "collect" /\ cmd = "dump"
  /\ SelectionOK(Ev.idxs)
  /\ queue' = Ev.idxs /\ pc' = "dumped" /\ l' = l + 1
  /\ UNCHANGED <<cmd, dis, named, pos, nP, nF, nS, failedSeq>>

Run ==
  /\ Is("Run") /\ pc = "running" /\ pos <= Len(queue)
  /\ Ev.i = queue[pos]                                           \* each selected doctest once, in order
  /\ Ev.outcome \in {"passed", "failed", "skipped", "raise:KeyboardInterrupt", "raise:Exception", "raise:Base"}
  /\ nP' = nP + (IF Ev.outcome = "passed" THEN 1 ELSE 0)
  /\ nF' = nF + (IF Ev.outcome = "failed" THEN 1 ELSE 0)
  /\ nS' = nS + (IF Ev.outcome = "skipped" THEN 1 ELSE 0)
  /\ failedSeq' = (IF Ev.outcome = "failed" THEN Append(failedSeq, Ev.i) ELSE failedSeq)
  /\ pc' = (CASE Ev.outcome = "raise:KeyboardInterrupt" -> "interrupted"
              [] Ev.outcome \in {"raise:Exception", "raise:Base"} -> "raised"
              [] OTHER -> "running")
  /\ pos' = pos + 1 /\ l' = l + 1
  /\ UNCHANGED <<cmd, dis, named, queue>>

Tally ==
  /\ Is("Tally")
  /\ \/ pc = "running" /\ pos = Len(queue) + 1                   \* every selected doctest was run
     \/ pc = "interrupted"
  /\ Ev.nP = nP /\ Ev.nF = nF /\ Ev.nS = nS
  /\ Ev.nT = Len(queue)
  /\ Ev.failed = failedSeq
  /\ (pc = "running") => nP + nF + nS = Len(queue)
  /\ pc' = "tallied" /\ l' = l + 1
  /\ UNCHANGED <<cmd, dis, named, queue, pos, nP, nF, nS, failedSeq>>

SessExit ==
  /\ Is("SessExit")
  /\ \/ pc = "tallied" /\ Ev.kind = "return" /\ Ev.action = "run_examples" /\ Ev.nfailed = nF
     \/ pc = "collect" /\ cmd = "list" /\ Ev.kind = "return" /\ Ev.action = "list"
     \/ pc = "dumped" /\ Ev.kind = "return" /\ Ev.action = "dump"
     \/ pc = "raised" /\ Ev.kind = "raise"
     \/ pc \in {"entered", "collect"} /\ Ev.kind = "raise"      \* unknown module, import or parse error, bad command line
  /\ pc' = "exited" /\ l' = l + 1
  /\ UNCHANGED <<cmd, dis, named, queue, pos, nP, nF, nS, failedSeq>>

MainExit ==
  /\ Is("MainExit") /\ pc = "exited"
  /\ Ev.code >= 0 /\ ((Ev.code % 256) # 0) = (nF > 0)             \* what main returns is handed to sys.exit: the low 8 bits are the status
  /\ pc' = "idle" /\ l' = l + 1
  /\ UNCHANGED <<cmd, dis, named, queue, pos, nP, nF, nS, failedSeq>>

Next == SessEnter \/ Command \/ Collect \/ Gather \/ Dump \/ Run \/ Tally \/ SessExit \/ MainExit
Spec == Init /\ [][Next]_vars

Matched == TLCGet("stats").diameter - 1
TraceAccepted == /\ PrintT(<<"XDV-MATCHED", Matched, Len(TraceLog)>>)
                 /\ Matched = Len(TraceLog)
=============================================================================
