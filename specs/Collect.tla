------------------------------ MODULE Collect ------------------------------
(***************************************************************************)
(* Collection of doctests from a module file:                              *)
(*   static_analysis.TopLevelVisitor  -> Visit (stack machine over the     *)
(*       items of the file in source order)                                *)
(*   core.parse_*_docstr_examples / docscrape_google -> NExamples, Tags    *)
(*   line arithmetic (docstring start recovered from its end line, google  *)
(*       block offsets, doctest start line)      -> ModelLines             *)
(*                                                                         *)
(* A module is a sequence of ITEMS in source order, each with a nesting    *)
(* depth (pre-order of the definition tree).  An item is                   *)
(*   [k, depth, deco, nd, sig2, gap, doc]                                  *)
(*   k     "def" | "adef" | "class" | "iftrue" | "ifmain" | "try" | "with" *)
(*         | clause kinds "exc" "telse" "fin" "case" "ifelse" "forelse"    *)
(*         "for" (items inside an except / else / finally / case clause)   *)
(*   deco  "none" | "plain" | "property" | "setter" | "deleter" |          *)
(*         "static" | "classm" | "wraps"                                   *)
(*   nd    number of further decorator lines in front; sig2: the signature *)
(*         spans two lines; gap: blank lines before the item               *)
(*   doc   layout of the docstring (see DocLines), or NoDoc                *)
(* The FILE, as a sequence of abstract lines, is computed here (FileLines);*)
(* the harness renders each line record with one format string, so an      *)
(* index of the sequence IS a line number of the file.                     *)
(*                                                                         *)
(* DECLARATIVE side (from the statements of C07/C08): DeclInventory,       *)
(* ghost line numbers (position of the first prompt of every doctest).     *)
(***************************************************************************)
EXTENDS Integers, Sequences, FiniteSets, SequencesExt, TLC

CONSTANTS Items,      \* alphabet of item records
          ModDocs,    \* alphabet of module docstring layouts (NoDoc allowed)
          Fillers,    \* items that may be followed by further items (all of Items unless a run focuses on one item)
          MaxItems, MinItems, MaxDepth, Deviation

NoDoc == [kind |-> "none", q |-> "d3", opn |-> "own", cls |-> "own", lead |-> 0, nblk |-> 0, inlead |-> 0, nsrc |-> 0, nwant |-> 0, hdr |-> "none"]
\* clause kinds: the items below them stand in the except clause of a try ("exc"), its else clause ("telse"), its finally clause
\* ("fin"), a case of a match statement ("case"), the else clause of an if ("ifelse") or of a for loop ("forelse"), a for body ("for")
ClauseKinds == {"exc", "telse", "fin", "case", "ifelse", "forelse", "for"}
Container(k) == k \in {"def", "adef", "class", "iftrue", "ifmain", "try", "with"} \cup ClauseKinds
Transparent(k) == k \in {"iftrue", "try", "with"} \cup ClauseKinds
\* lines in front of the clause header that belong to the same statement (try: ... / except ...: pass / match ...: / if False: pass / for ...: pass)
Prelude(k) == CASE k = "telse" -> 2 [] k \in {"exc", "fin", "case", "ifelse", "forelse"} -> 1 [] OTHER -> 0
IsFunc(k) == k \in {"def", "adef"}

-----------------------------------------------------------------------------
(* Docstring layout -> lines of the docstring literal.                      *)
(* hdr (freeform layouts): which prose line in front of a group of prompt   *)
(* lines ends with one of the words that switch that group off in freeform  *)
(* parsing (Benchmark:, Script:, DisableDoctest:, ...): "none" | "lead"     *)
(* (the last leading prose line, group 1) | "mid" (the prose line between   *)
(* group 1 and group 2) | "both".                                           *)
(* A docstring line is [t, g, j]: t type, g block/group number, j index.    *)
DL(t, g, j) == [t |-> t, g |-> g, j |-> j]
RECURSIVE Blocks(_, _)
Blocks(d, g) ==      \* lines of example group/block g .. nblk
  IF g > d.nblk THEN <<>>
  ELSE LET src  == [j \in 1..d.nsrc |-> DL("src", g, j)]
           want == [j \in 1..d.nwant |-> DL("want", g, j)]
           body == src \o want
       IN (IF d.kind = "goog"
           THEN <<DL("tag", g, 0)>> \o (IF d.inlead = 1 THEN <<DL("inprose", g, 0)>> ELSE IF d.inlead = 2 THEN <<DL("blank", g, 0)>> ELSE <<>>)
                \o body \o (IF g < d.nblk THEN <<DL("blank", g, 1), DL("othertag", g, 0), DL("otherbody", g, 0), DL("blank", g, 2)>> ELSE <<>>)
           ELSE body \o (IF g < d.nblk THEN <<DL("blank", g, 1), DL(IF d.hdr \in {"mid", "both"} THEN "skiphdr" ELSE "prose", g, 0), DL("blank", g, 2)>>
                                          ELSE <<>>))
          \o Blocks(d, g + 1)

\* content lines between the opening and the closing quotes (the opening line itself is line 0 of the docstring)
Content(d) ==
  (IF d.lead > 0 THEN [j \in 1..d.lead |-> DL(IF j = d.lead /\ d.hdr \in {"lead", "both"} THEN "skiphdr" ELSE "prose", 0, j)] \o <<DL("blank", 0, 0)>>
   ELSE <<>>)
  \o (IF d.kind \in {"free", "goog"} THEN Blocks(d, 1) ELSE IF d.kind = "text" THEN <<DL("prose", 0, 9)>> ELSE <<>>)

\* the lines of the literal in the file: opening line, content, closing line
\*  opn = "own":    the opening quotes stand alone            -> open line + content
\*  opn = "shared": the first content line shares the opening line
\*  cls = "own":    closing quotes on their own line;  "comment": own line followed by a comment
\*  cls = "text":   closing quotes directly after the last content line
\*  q = "one":      everything on one line (opn shared, cls text, single content line)
DocLines(d) ==
  LET c == Content(d)
      opened == IF d.opn = "own" \/ c = <<>> THEN <<DL("open", 0, 0)>> \o c
                ELSE <<[c[1] EXCEPT !.t = "open+" \o c[1].t]>> \o Tail(c)
      n == Len(opened)
      suffix == IF d.cls = "textc" THEN "+close#" ELSE "+close"          \* "textc": closing quotes after text AND a trailing comment
  IN IF d.cls \in {"text", "textc"} /\ n > 1 THEN [x \in 1..n |-> IF x = n THEN [opened[x] EXCEPT !.t = @ \o suffix] ELSE opened[x]]
     ELSE IF d.cls \in {"text", "textc"} /\ n = 1 THEN <<[opened[1] EXCEPT !.t = @ \o suffix]>>
     ELSE Append(opened, DL(IF d.cls = "comment" THEN "close#" ELSE "close", 0, 0))

HasT(dl, t) == \E pre \in {"", "open+"}, suf \in {"", "+close", "+close#"} : dl.t = pre \o t \o suf
\* index (0-based, relative to the opening line) of the first line of a given type/group
FirstIdx(dls, t, g) == LET S == {x \in 1..Len(dls) : HasT(dls[x], t) /\ dls[x].g = g} IN
                        IF S = {} THEN -1 ELSE (CHOOSE x \in S : \A y \in S : x <= y) - 1

-----------------------------------------------------------------------------
(* File lines.  [t, it, a]: t type, it item index (0 = module docstring), a aux *)
FL(t, it, a, dl) == [t |-> t, it |-> it, a |-> a, dl |-> dl]
NoDL == DL("-", 0, 0)
ItemLines(it, x) ==
  [j \in 1..it.gap |-> FL("blank", x, j, NoDL)]
  \o [j \in 1..it.nd |-> FL("deco_extra", x, j, NoDL)]
  \o (IF it.deco # "none" THEN <<FL("deco", x, 0, NoDL)>> ELSE <<>>)
  \o [j \in 1..Prelude(it.k) |-> FL("pre", x, j, NoDL)]
  \o (IF it.sig2 THEN <<FL("head1", x, 0, NoDL), FL("head2", x, 0, NoDL)>> ELSE <<FL("head", x, 0, NoDL)>>)
  \o (IF it.doc.kind = "none" THEN <<>> ELSE LET dls == DocLines(it.doc) IN [j \in 1..Len(dls) |-> FL("doc", x, j - 1, dls[j])])
  \o <<FL("body", x, 0, NoDL)>>

\* a try block needs its except clause after the last line of its body: `open` is the stack of open try items
RECURSIVE Closers(_, _, _)
Closers(items, open, depth) ==     \* close every open try whose depth is >= depth, innermost first
  IF open = <<>> \/ items[open[Len(open)]].depth < depth THEN <<>>
  ELSE <<FL("tryend1", open[Len(open)], 0, NoDL), FL("tryend2", open[Len(open)], 0, NoDL)>>
       \o Closers(items, SubSeq(open, 1, Len(open) - 1), depth)
RECURSIVE StillOpen(_, _, _)
StillOpen(items, open, depth) ==
  IF open = <<>> \/ items[open[Len(open)]].depth < depth THEN open ELSE StillOpen(items, SubSeq(open, 1, Len(open) - 1), depth)
RECURSIVE AllItemLines(_, _, _)
AllItemLines(items, x, open) ==
  IF x > Len(items) THEN Closers(items, open, 0)
  ELSE LET d == items[x].depth
           rest == StillOpen(items, open, d)
       IN Closers(items, open, d) \o ItemLines(items[x], x)
          \o AllItemLines(items, x + 1, IF items[x].k = "try" THEN Append(rest, x) ELSE rest)
FileLines(moddoc, items) ==
  (IF moddoc.kind = "none" THEN <<>> ELSE LET dls == DocLines(moddoc) IN [j \in 1..Len(dls) |-> FL("doc", 0, j - 1, dls[j])])
  \o <<FL("import", 0, 0, NoDL)>>
  \o AllItemLines(items, 1, <<>>)

\* 1-based file line of the opening line of item x's docstring (ghost)
DocOpenLine(fl, x) == LET S == {n \in 1..Len(fl) : fl[n].t = "doc" /\ fl[n].it = x /\ fl[n].a = 0} IN
                       IF S = {} THEN 0 ELSE CHOOSE n \in S : TRUE
DocCloseLine(fl, x) == LET S == {n \in 1..Len(fl) : fl[n].t = "doc" /\ fl[n].it = x} IN
                        IF S = {} THEN 0 ELSE CHOOSE n \in S : \A m \in S : m <= n

-----------------------------------------------------------------------------
(* How many doctests a docstring yields under a style, and where they start *)
\* DECLARATIVE: a group of a freeform layout is switched off by a skip word at the end of the text in front of it, and only
\* that group - the next text switches collection on again
HdrBefore(d, g) == d.kind = "free" /\ ((g = 1 /\ d.lead > 0 /\ d.hdr \in {"lead", "both"}) \/ (g = 2 /\ d.hdr \in {"mid", "both"}))
Kept(d) == {g \in 1..d.nblk : ~HdrBefore(d, g)}
\* OPERATIONAL: the loop of parse_freeform_docstr_examples over text parts and prompt groups with its `ignoring` flag
RECURSIVE WalkKept(_, _, _)
WalkKept(d, g, ignoring) ==
  IF g > d.nblk THEN {}
  ELSE LET textBefore == (g = 1 /\ d.lead > 0) \/ g > 1
           ign0 == IF textBefore /\ "SkipWordSticks" \notin Deviation THEN FALSE ELSE ignoring       \* a text part: stop ignoring
           ign1 == ign0 \/ HdrBefore(d, g)
       IN (IF ign1 THEN {} ELSE {g}) \cup WalkKept(d, g + 1, ign1)
KeptModel(d) == WalkKept(d, 1, FALSE)
FirstKept(d) == IF KeptModel(d) = {} THEN 1 ELSE CHOOSE g \in KeptModel(d) : \A h \in KeptModel(d) : g <= h
DeclNExamples(d, style) ==
  IF d.kind \notin {"free", "goog"} \/ d.nsrc = 0 THEN 0
  ELSE IF d.kind = "free" THEN (IF Kept(d) = {} \/ style = "google" THEN 0 ELSE 1)
  ELSE IF style = "freeform" THEN 1 ELSE d.nblk
NExamples(d, style) ==
  IF d.kind \notin {"free", "goog"} \/ d.nsrc = 0 THEN 0
  ELSE IF d.kind = "free" /\ KeptModel(d) = {} THEN 0           \* every group switched off: the docstring yields no doctest
  ELSE IF style = "freeform" THEN 1
  ELSE IF d.kind = "goog" THEN d.nblk                     \* google, and auto when blocks exist
  ELSE IF style = "auto" THEN 1 ELSE 0                    \* freeform layout: google finds nothing, auto falls back

\* ghost: docstring-relative index of the first prompt of doctest number num (0-based) under the style
GhostStartIdx(d, style, num) ==
  LET dls == DocLines(d) IN
  IF style = "freeform" \/ d.kind = "free" THEN FirstIdx(dls, "src", FirstKept(d)) ELSE FirstIdx(dls, "src", num + 1)
\* the code's arithmetic: google: line of the tag + 1; freeform: number of lines in front of the first prompt
ModelStartIdx(d, style, num) ==
  LET dls == DocLines(d) IN
  IF style = "freeform" \/ d.kind = "free" THEN FirstIdx(dls, "src", FirstKept(d))     \* lines of text and of switched-off groups are counted
  ELSE FirstIdx(dls, "tag", num + 1) + 1

\* the code's recovery of the opening line from the closing line: end line - number of newlines in the
\* docstring, accepted only if that line starts with an optional r/R/u/U prefix and the same triple quote
\* and the closing line ends with the triple quote (comment removed); otherwise the closing line itself
ModelDocOpen(fl, x, d) ==
  LET close == DocCloseLine(fl, x)
      nnl == Len(DocLines(d)) - 1
      prefixOk == d.q \in ({"d3", "s3", "r"} \cup (IF "OnlyLowerR" \in Deviation THEN {} ELSE {"R", "u"}))
  IN IF d.q = "one" THEN close
     ELSE IF prefixOk THEN close - nnl ELSE close

F12(d, style) == d.kind = "goog" /\ style # "freeform" /\ d.inlead > 0

-----------------------------------------------------------------------------
(* Inventory: which items are collected, under which name                   *)

Name(items, x) ==   \* setters and deleters carry the name of the property they belong to
  IF items[x].nm # 0 THEN items[x].nm            \* real modules (CollectTrace): an explicit name id, equal for equal names
  ELSE IF items[x].deco \in {"setter", "deleter"}
  THEN LET S == {y \in 1..(x-1) : items[y].deco = "property" /\ items[y].depth = items[x].depth} IN
       IF S = {} THEN x ELSE CHOOSE y \in S : \A z \in S : z <= y
  ELSE x

\* ancestors of item x: for each smaller depth the closest preceding item of that depth
Anc(items, x) == {y \in 1..(x-1) : items[y].depth < items[x].depth /\
                    \A z \in (y+1)..(x-1) : items[z].depth > items[y].depth}

\* DECLARATIVE (C07): functions, async functions and classes at module level or directly in a module-level
\* class; conditional / try / with blocks are transparent; nothing inside a function, nothing in a nested
\* class, nothing under the main guard, no setters/deleters.
DeclCollected(items, x) ==
  LET it == items[x]
      A == Anc(items, x)
      classes == {y \in A : items[y].k = "class"}
  IN /\ it.k \in {"def", "adef", "class"}
     /\ it.deco \notin {"setter", "deleter"}
     /\ \A y \in A : items[y].k # "ifmain" /\ ~IsFunc(items[y].k)
     /\ IF it.k = "class" THEN classes = {} ELSE Cardinality(classes) <= 1
DeclCallname(items, x) ==
  LET classes == {y \in Anc(items, x) : items[y].k = "class"}
  IN IF classes = {} THEN <<0, Name(items, x), x>> ELSE <<CHOOSE y \in classes : TRUE, Name(items, x), x>>   \* third: whose docstring
DeclInventory(items) == {DeclCallname(items, x) : x \in {y \in 1..Len(items) : DeclCollected(items, y)}}

\* OPERATIONAL: the visitor.  st = [cls, clsDepth, skip]: current class (0 = none), its depth, and the depth
\* below which nodes are not visited (-1 = visiting)
\* calldefs[callname] = calldef: a later definition under the same name replaces the earlier one
Put(acc, cls, name, x) == {e \in acc : ~(e[1] = cls /\ e[2] = name)} \cup {<<cls, name, x>>}
RECURSIVE Visit(_, _, _, _)
Visit(items, x, st, acc) ==
  IF x > Len(items) THEN acc
  ELSE
   LET it == items[x]
       skipping == st.skip >= 0 /\ it.depth > st.skip
       st1 == IF skipping THEN st
              ELSE [cls |-> IF st.cls # 0 /\ it.depth <= st.clsDepth THEN 0 ELSE st.cls,
                    clsDepth |-> st.clsDepth, skip |-> -1]
   IN IF skipping THEN Visit(items, x + 1, st, acc)
      ELSE IF IsFunc(it.k) THEN
             IF it.k = "adef" /\ "NoAsyncVisit" \in Deviation
             THEN Visit(items, x + 1, st1, acc)                                   \* generic_visit descends
             ELSE IF it.deco \in {"setter", "deleter"} /\ "CollectSetters" \notin Deviation
             THEN Visit(items, x + 1, [st1 EXCEPT !.skip = it.depth], acc)
             ELSE Visit(items, x + 1, [st1 EXCEPT !.skip = IF "VisitFunctionBody" \in Deviation THEN -1 ELSE it.depth],
                        Put(acc, st1.cls, Name(items, x), x))
      ELSE IF it.k = "class" THEN
             IF st1.cls = 0 \/ "CollectNestedClass" \in Deviation
             THEN Visit(items, x + 1, [cls |-> x, clsDepth |-> it.depth, skip |-> -1], Put(acc, 0, Name(items, x), x))
             ELSE Visit(items, x + 1, [st1 EXCEPT !.skip = it.depth], acc)
      ELSE IF it.k = "ifmain" /\ "CollectMainGuard" \notin Deviation THEN Visit(items, x + 1, [st1 EXCEPT !.skip = it.depth], acc)
      \* except handlers and match cases are not statement nodes, the else clause of a try is a separate field: a visitor that
      \* walks "the statements of the body" only loses them
      ELSE IF it.k \in {"exc", "case", "telse"} /\ "SkipClauseBodies" \in Deviation THEN Visit(items, x + 1, [st1 EXCEPT !.skip = it.depth], acc)
      ELSE Visit(items, x + 1, st1, acc)
VisitInventory(items) == Visit(items, 1, [cls |-> 0, clsDepth |-> 0, skip |-> -1], {})

-----------------------------------------------------------------------------
VARIABLES moddoc, items, pc
vars == <<moddoc, items, pc>>

Init == moddoc \in ModDocs /\ items = <<>> /\ pc = "build"

WellPlaced(its, it) ==
  LET n == Len(its) IN
  /\ it.depth <= MaxDepth
  /\ IF n = 0 THEN it.depth = 0 ELSE it.depth <= its[n].depth + 1
  /\ (it.depth > 0 /\ n > 0 /\ it.depth = its[n].depth + 1 => Container(its[n].k))
  \* method decorators only inside a class body, setters only after a property of the same body
  /\ (it.deco \in {"property", "static", "classm", "setter", "deleter"} =>
        /\ it.depth > 0
        /\ LET A == Anc(Append(its, it), n + 1) IN \E y \in A : its[y].k = "class" /\ its[y].depth = it.depth - 1)
  /\ (it.deco \in {"setter", "deleter"} => \E y \in 1..n : its[y].deco = "property" /\ its[y].depth = it.depth /\
                                             \A z \in (y+1)..n : its[z].depth >= it.depth)
  /\ (it.deco # "none" => IsFunc(it.k))

AddItem ==
  /\ pc = "build" /\ Len(items) < MaxItems
  /\ (Len(items) > 0 => items[Len(items)] \in Fillers)
  /\ \E it \in Items : WellPlaced(items, it) /\ items' = Append(items, it)
  /\ UNCHANGED <<moddoc, pc>>

Styles == {"freeform", "google", "auto"}
Summary(fl) ==
  [x \in 0..Len(items) |->
     LET d == IF x = 0 THEN moddoc ELSE items[x].doc IN
     IF d.kind = "none" THEN <<0, 0, <<>>, <<>>, <<>>>>
     ELSE <<DocOpenLine(fl, x), ModelDocOpen(fl, x, d),
            [s \in Styles |-> NExamples(d, s)],
            [s \in Styles |-> [n \in 0..(NExamples(d, s) - 1) |-> DocOpenLine(fl, x) + GhostStartIdx(d, s, n)]],
            [s \in Styles |-> [n \in 0..(NExamples(d, s) - 1) |-> ModelDocOpen(fl, x, d) + ModelStartIdx(d, s, n)]]>>]

Emit == IF "Emit" \in Deviation
        THEN LET fl == FileLines(moddoc, items) IN
             PrintT("XDV " \o ToString(<<moddoc, items, [n \in 1..Len(fl) |-> <<fl[n].t, fl[n].it, fl[n].a, fl[n].dl.t, fl[n].dl.g, fl[n].dl.j>>],
                                         VisitInventory(items), DeclInventory(items), Summary(fl)>>))
        ELSE TRUE

Finish ==
  /\ pc = "build" /\ Len(items) >= MinItems
  /\ pc' = "done"
  /\ Emit
  /\ UNCHANGED <<moddoc, items>>

Next == AddItem \/ Finish
Spec == Init /\ [][Next]_vars

-----------------------------------------------------------------------------
(* Invariants *)
\* C07: every docstring yields the declared number of doctests under every style
ExamplesAreDecl == pc = "done" =>
  \A x \in 0..Len(items) : LET d == IF x = 0 THEN moddoc ELSE items[x].doc IN
     \A st \in Styles : NExamples(d, st) = DeclNExamples(d, st)
\* C07: the visitor collects exactly the declared inventory
VisitIsDecl == VisitInventory(items) = DeclInventory(items)

\* C07: identifiers are unique: two collected items never share a callname
UniqueNames == \A x, y \in 1..Len(items) :
   (x # y /\ DeclCollected(items, x) /\ DeclCollected(items, y)) =>
      <<DeclCallname(items, x)[1], DeclCallname(items, x)[2]>> # <<DeclCallname(items, y)[1], DeclCallname(items, y)[2]>>

\* C08: the recovered opening line of every docstring is the real one
DocOpenIsGhost == LET fl == FileLines(moddoc, items) IN
   \A x \in 0..Len(items) : LET d == IF x = 0 THEN moddoc ELSE items[x].doc IN
      d.kind # "none" => ModelDocOpen(fl, x, d) = DocOpenLine(fl, x)

\* C08: the start line of every doctest is the line of its first prompt (known finding F12 carved out)
StartIsGhost ==
   \A x \in 0..Len(items) : LET d == IF x = 0 THEN moddoc ELSE items[x].doc IN
      \A s \in Styles : \A n \in 0..(NExamples(d, s) - 1) :
         ~F12(d, s) => ModelStartIdx(d, s, n) = GhostStartIdx(d, s, n)
=============================================================================
