------------------------------ MODULE ModPath ------------------------------
(***************************************************************************)
(* Module names <-> paths on one search-path directory:                    *)
(*   util_import._syspath_modname_to_modpath / normalize_modpath           *)
(*                                       -> OpResolve                      *)
(*   util_import.split_modpath / modpath_to_modname -> OpSplit             *)
(*   static_analysis.package_modpaths (os.walk with pruning) -> OpWalk     *)
(* against the interpreter's regular-package import rules (DeclResolve),   *)
(* the definition of the split (DeclSplit) and of a package tree (DeclWalk)*)
(*                                                                         *)
(* A directory tree below the search-path root is a function from paths    *)
(* (sequences of names) to node states:                                    *)
(*   "none"  nothing of that name        "file"     name.py                *)
(*   "dir"   plain directory             "dirfile"  plain directory + .py  *)
(*   "pkg"   directory with __init__.py  "pkgfile"  package + name.py      *)
(*   "pkgmain" package with __main__.py  "pkgmainfile"                     *)
(* The tree is built path by path in depth-first order (Build), children   *)
(* exist only below directories.                                           *)
(***************************************************************************)
EXTENDS Integers, Sequences, FiniteSets, SequencesExt, TLC

CONSTANTS NamesAt,    \* sequence: NamesAt[d] = sequence of the names usable at depth d
          StatesAt,   \* sequence: StatesAt[d] = set of node states usable at depth d
          Deviation

Depth == Len(NamesAt)
HasDir(s)  == s \in {"dir", "dirfile", "pkg", "pkgfile", "pkgmain", "pkgmainfile"}
IsPkg(s)   == s \in {"pkg", "pkgfile", "pkgmain", "pkgmainfile"}
HasMain(s) == s \in {"pkgmain", "pkgmainfile"}
HasFile(s) == s \in {"file", "dirfile", "pkgfile", "pkgmainfile"}

RECURSIVE PathsUnder(_, _)
PathsUnder(prefix, d) ==
  IF d > Depth THEN <<>>
  ELSE FlattenSeq([x \in 1..Len(NamesAt[d]) |-> <<Append(prefix, NamesAt[d][x])>> \o PathsUnder(Append(prefix, NamesAt[d][x]), d + 1)])
PathList == PathsUnder(<<>>, 1)

VARIABLES tree, idx, pc
vars == <<tree, idx, pc>>

Parent(p) == SubSeq(p, 1, Len(p) - 1)
St(t, p) == IF p \in DOMAIN t THEN t[p] ELSE "none"

Init == tree = <<>> /\ idx = 1 /\ pc = "build"        \* tree: function (as a set of pairs, see Build)

Build ==
  /\ pc = "build" /\ idx <= Len(PathList)
  /\ LET p == PathList[idx] IN
     IF Len(p) = 1 \/ HasDir(St(tree, Parent(p)))
     THEN \E s \in StatesAt[Len(p)] : tree' = (IF tree = <<>> THEN (p :> s) ELSE tree @@ (p :> s))
     ELSE tree' = tree
  /\ idx' = idx + 1 /\ UNCHANGED pc

-----------------------------------------------------------------------------
(* Queries: dotted names, as sequences *)
AllNames == UNION {{NamesAt[d][x] : x \in 1..Len(NamesAt[d])} : d \in 1..Depth} \cup {"zz"}
RECURSIVE SeqsUpTo(_)
SeqsUpTo(n) == IF n = 0 THEN {<<>>} ELSE LET S == SeqsUpTo(n - 1) IN S \cup {Append(s, x) : s \in {t \in S : Len(t) = n - 1}, x \in AllNames}
Queries == LET S == SeqsUpTo(Depth) \ {<<>>} IN S \cup {Append(s, "__main__") : s \in {t \in S : Len(t) < Depth + 1}}

\* result of a resolution: <<kind, path>>, kind in {"none", "pkg", "mod", "main"}
None == <<"none", <<>>>>

\* DECLARATIVE: what `import q` finds with regular packages only.  At every level a package directory wins over
\* a module file; a directory without __init__.py is nothing; every proper prefix must be a package.
Level(t, p) ==
  IF p = <<>> THEN "none"
  ELSE IF p[Len(p)] = "__main__" THEN (IF Len(p) > 1 /\ HasMain(St(t, Parent(p))) THEN "main" ELSE "none")
  ELSE IF IsPkg(St(t, p)) THEN "pkg" ELSE IF HasFile(St(t, p)) THEN "mod" ELSE "none"
DeclResolve(t, q) ==
  IF \A k \in 1..(Len(q) - 1) : Level(t, SubSeq(q, 1, k)) = "pkg"
  THEN (IF Level(t, q) = "none" THEN None ELSE <<Level(t, q), q>>)
  ELSE None

\* OPERATIONAL: check_dpath: a directory of that relative path that holds an __init__.py and whose parents up to the
\* search-path entry all hold one; otherwise a file <path>.py under the same condition.
ExistsDir(t, p) == p # <<>> /\ p[Len(p)] # "__main__" /\ HasDir(St(t, p))
IsFilePy(t, p) == IF p[Len(p)] = "__main__" THEN Len(p) > 1 /\ HasMain(St(t, Parent(p))) ELSE HasFile(St(t, p))
IsValid(t, p) == "NoIsValid" \in Deviation \/ \A k \in 1..(Len(p) - 1) : IsPkg(St(t, SubSeq(p, 1, k)))
OpResolve(t, q) ==
  LET dirFirst == ExistsDir(t, q) /\ IsPkg(St(t, q)) /\ IsValid(t, q)
      fileNext == IsFilePy(t, q) /\ IsValid(t, q)
  IN IF "FileBeforePackage" \in Deviation /\ fileNext THEN <<IF q[Len(q)] = "__main__" THEN "main" ELSE "mod", q>>
     ELSE IF dirFirst THEN <<"pkg", q>>
     ELSE IF fileNext THEN <<IF q[Len(q)] = "__main__" THEN "main" ELSE "mod", q>>
     ELSE None

-----------------------------------------------------------------------------
(* Existing module paths (files and package directories) and their split    *)
ModulePaths(t) == {<<"mod", p>> : p \in {x \in DOMAIN t : HasFile(t[x])}}
                  \cup {<<"pkg", p>> : p \in {x \in DOMAIN t : IsPkg(t[x])}}
                  \cup {<<"main", Append(p, "__main__")>> : p \in {x \in DOMAIN t : HasMain(t[x])}}
\* DECLARATIVE: the directory that must be on the search path is the deepest ancestor directory without __init__.py
\* (the root if all have one); returned as the number of leading components that belong to it
DeclSplit(t, p) ==
  LET S == {k \in 0..(Len(p) - 1) : (k = 0 \/ ~IsPkg(St(t, SubSeq(p, 1, k)))) /\ \A m \in (k+1)..(Len(p) - 1) : IsPkg(St(t, SubSeq(p, 1, m)))}
  IN CHOOSE k \in S : \A k2 \in S : k2 <= k
\* OPERATIONAL: walk up from the parent while __init__.py exists
RECURSIVE WalkUp(_, _, _)
WalkUp(t, p, k) == IF k > 0 /\ IsPkg(St(t, SubSeq(p, 1, k))) THEN WalkUp(t, p, k - 1) ELSE k
OpSplit(t, p) == WalkUp(t, p, Len(p) - 1)

-----------------------------------------------------------------------------
(* package_modpaths(pkg, with_pkg=True): the files of a package tree          *)
Under(p, q) == Len(q) > Len(p) /\ SubSeq(q, 1, Len(p)) = p
\* DECLARATIVE: __init__ / __main__ / module files of every directory reachable from the package through packages only
DeclWalk(t, p) ==
  LET inPkg(q) == \A k \in Len(p)..(Len(q) - 1) : IsPkg(St(t, SubSeq(q, 1, k)))
      D == {q \in DOMAIN t : Under(p, q) /\ inPkg(q)}
  IN {<<"init", p>>} \cup (IF HasMain(St(t, p)) THEN {<<"main", p>>} ELSE {})
     \cup {<<"init", q>> : q \in {x \in D : IsPkg(t[x])}}
     \cup {<<"main", q>> : q \in {x \in D : IsPkg(t[x]) /\ HasMain(t[x])}}
     \cup {<<"file", q>> : q \in {x \in D : HasFile(t[x])}}
\* OPERATIONAL: os.walk top-down; in a directory with __init__.py yield its .py files (not __init__) and the __init__ of
\* its sub-directories; a directory without __init__.py yields nothing and is not descended into
RECURSIVE WalkDir(_, _)
WalkDir(t, d) ==
  LET kids == {q \in DOMAIN t : Len(q) = Len(d) + 1 /\ Under(d, q)}
      ispkg == IsPkg(St(t, d))
      here == IF ispkg
              THEN (IF HasMain(St(t, d)) THEN {<<"main", d>>} ELSE {})
                   \cup {<<"file", q>> : q \in {x \in kids : HasFile(t[x])}}
                   \cup {<<"init", q>> : q \in {x \in kids : IsPkg(t[x])}}
              ELSE {}
      descend == IF ispkg \/ "NoPrune" \in Deviation THEN {q \in kids : HasDir(t[q])} ELSE {}
  IN here \cup UNION {WalkDir(t, q) : q \in descend}
OpWalk(t, p) == {<<"init", p>>} \cup WalkDir(t, p)

-----------------------------------------------------------------------------
Emit == IF "Emit" \in Deviation
        THEN PrintT("XDV " \o ToString(<<tree,
                 {<<q, OpResolve(tree, q)>> : q \in Queries},
                 {<<mp, OpSplit(tree, mp[2])>> : mp \in ModulePaths(tree)},
                 {<<p, OpWalk(tree, p)>> : p \in {x \in DOMAIN tree : Len(x) = 1 /\ IsPkg(tree[x])}}>>))
        ELSE TRUE

Finish ==
  /\ pc = "build" /\ idx > Len(PathList)
  /\ pc' = "done" /\ Emit
  /\ UNCHANGED <<tree, idx>>

Next == Build \/ Finish
Spec == Init /\ [][Next]_vars

-----------------------------------------------------------------------------
Done == pc = "done"
ResolveIsImport == Done => \A q \in Queries : OpResolve(tree, q) = DeclResolve(tree, q)
\* converting the resolved path back gives the same dotted name: the name of a path is its components below the split
RoundTrip == Done => \A q \in Queries : LET r == OpResolve(tree, q) IN
                r # None => SubSeq(r[2], OpSplit(tree, r[2]) + 1, Len(r[2])) = q
SplitIsDecl == Done => \A mp \in ModulePaths(tree) : OpSplit(tree, mp[2]) = DeclSplit(tree, mp[2])
WalkIsDecl == Done => \A p \in DOMAIN tree : (Len(p) = 1 /\ IsPkg(tree[p])) => OpWalk(tree, p) = DeclWalk(tree, p)
=============================================================================
