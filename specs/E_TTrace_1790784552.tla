---- MODULE E_TTrace_1790784552 ----
EXTENDS Sequences, TLCExt, E, Toolbox, Naturals, TLC

_expression ==
    LET E_TEExpression == INSTANCE E_TEExpression
    IN E_TEExpression!expression
----

_trace ==
    LET E_TETrace == INSTANCE E_TETrace
    IN E_TETrace!trace
----

_inv ==
    ~(
        TLCGet("level") = Len(_TETrace)
        /\
        ctq = (FALSE)
        /\
        pc = ("done")
        /\
        err = ("none")
        /\
        pos = (1)
        /\
        blocks = (<<>>)
        /\
        prev = ("text")
        /\
        parts = (<<>>)
        /\
        sind = (0)
        /\
        skip = (0)
        /\
        lines = (<<>>)
        /\
        labels = (<<>>)
    )
----

_init ==
    /\ ctq = _TETrace[1].ctq
    /\ lines = _TETrace[1].lines
    /\ prev = _TETrace[1].prev
    /\ parts = _TETrace[1].parts
    /\ pos = _TETrace[1].pos
    /\ pc = _TETrace[1].pc
    /\ skip = _TETrace[1].skip
    /\ blocks = _TETrace[1].blocks
    /\ sind = _TETrace[1].sind
    /\ labels = _TETrace[1].labels
    /\ err = _TETrace[1].err
----

_next ==
    /\ \E i,j \in DOMAIN _TETrace:
        /\ \/ /\ j = i + 1
              /\ i = TLCGet("level")
        /\ ctq  = _TETrace[i].ctq
        /\ ctq' = _TETrace[j].ctq
        /\ lines  = _TETrace[i].lines
        /\ lines' = _TETrace[j].lines
        /\ prev  = _TETrace[i].prev
        /\ prev' = _TETrace[j].prev
        /\ parts  = _TETrace[i].parts
        /\ parts' = _TETrace[j].parts
        /\ pos  = _TETrace[i].pos
        /\ pos' = _TETrace[j].pos
        /\ pc  = _TETrace[i].pc
        /\ pc' = _TETrace[j].pc
        /\ skip  = _TETrace[i].skip
        /\ skip' = _TETrace[j].skip
        /\ blocks  = _TETrace[i].blocks
        /\ blocks' = _TETrace[j].blocks
        /\ sind  = _TETrace[i].sind
        /\ sind' = _TETrace[j].sind
        /\ labels  = _TETrace[i].labels
        /\ labels' = _TETrace[j].labels
        /\ err  = _TETrace[i].err
        /\ err' = _TETrace[j].err

\* Uncomment the ASSUME below to write the states of the error trace
\* to the given file in Json format. Note that you can pass any tuple
\* to `JsonSerialize`. For example, a sub-sequence of _TETrace.
    \* ASSUME
    \*     LET J == INSTANCE Json
    \*         IN J!JsonSerialize("E_TTrace_1790784552.json", _TETrace)

=============================================================================

 Note that you can extract this module `E_TEExpression`
  to a dedicated file to reuse `expression` (the module in the 
  dedicated `E_TEExpression.tla` file takes precedence 
  over the module `E_TEExpression` below).

---- MODULE E_TEExpression ----
EXTENDS Sequences, TLCExt, E, Toolbox, Naturals, TLC

expression == 
    [
        \* To hide variables of the `E` spec from the error trace,
        \* remove the variables below.  The trace will be written in the order
        \* of the fields of this record.
        ctq |-> ctq
        ,lines |-> lines
        ,prev |-> prev
        ,parts |-> parts
        ,pos |-> pos
        ,pc |-> pc
        ,skip |-> skip
        ,blocks |-> blocks
        ,sind |-> sind
        ,labels |-> labels
        ,err |-> err
        
        \* Put additional constant-, state-, and action-level expressions here:
        \* ,_stateNumber |-> _TEPosition
        \* ,_ctqUnchanged |-> ctq = ctq'
        
        \* Format the `ctq` variable as Json value.
        \* ,_ctqJson |->
        \*     LET J == INSTANCE Json
        \*     IN J!ToJson(ctq)
        
        \* Lastly, you may build expressions over arbitrary sets of states by
        \* leveraging the _TETrace operator.  For example, this is how to
        \* count the number of times a spec variable changed up to the current
        \* state in the trace.
        \* ,_ctqModCount |->
        \*     LET F[s \in DOMAIN _TETrace] ==
        \*         IF s = 1 THEN 0
        \*         ELSE IF _TETrace[s].ctq # _TETrace[s-1].ctq
        \*             THEN 1 + F[s-1] ELSE F[s-1]
        \*     IN F[_TEPosition - 1]
    ]

=============================================================================



Parsing and semantic processing can take forever if the trace below is long.
 In this case, it is advised to uncomment the module below to deserialize the
 trace from a generated binary file.

\*
\*---- MODULE E_TETrace ----
\*EXTENDS IOUtils, E, TLC
\*
\*trace == IODeserialize("E_TTrace_1790784552.bin", TRUE)
\*
\*=============================================================================
\*

---- MODULE E_TETrace ----
EXTENDS E, TLC

trace == 
    <<
    ([ctq |-> FALSE,pc |-> "scan",err |-> "none",pos |-> 1,blocks |-> <<>>,prev |-> "text",parts |-> <<>>,sind |-> 0,skip |-> 0,lines |-> <<>>,labels |-> <<>>]),
    ([ctq |-> FALSE,pc |-> "done",err |-> "none",pos |-> 1,blocks |-> <<>>,prev |-> "text",parts |-> <<>>,sind |-> 0,skip |-> 0,lines |-> <<>>,labels |-> <<>>])
    >>
----


=============================================================================

---- CONFIG E_TTrace_1790784552 ----
CONSTANTS
    Blocks <- C13_Blocks
    MaxBlocks = 0
    MinBlocks = 0
    Deviation = { }

INVARIANT
    _inv

CHECK_DEADLOCK
    \* CHECK_DEADLOCK off because of PROPERTY or INVARIANT above.
    FALSE

INIT
    _init

NEXT
    _next

CONSTANT
    _TETrace <- _trace

ALIAS
    _expression
=============================================================================
\* Generated on Wed Sep 30 16:09:14 UTC 2026