----------------------------- MODULE MatchTrace -----------------------------
(***************************************************************************)
(* Code -> spec direction for C05/C06: every line of the trace file is one *)
(* call of the implementation recorded by the harness                      *)
(*   {"k": "check_output" | "ellipsis", "got": [tokens], "want": [tokens], *)
(*    "flags": [names], "res": bool}                                       *)
(* and must be explained by the specification: res = CheckOutput(...) or   *)
(* res = EllipsisGreedy(...) (= EllipsisDecl, checked as well).            *)
(* One TLC state per consumed line; lines that the spec cannot explain are *)
(* collected in `bad` so that the rest of the trace is still checked.      *)
(***************************************************************************)
EXTENDS Integers, Sequences, FiniteSets, TLC, TLCExt, Json, IOUtils

CONSTANT Deviation
M == INSTANCE Match WITH Alphabet <- {}, MaxGot <- 0, MaxWant <- 0, Mode <- "trace",
                         got <- <<>>, row <- <<>>, phase <- "trace"

TraceLog == ndJsonDeserialize(IOEnv.TRACE_FILE)

VARIABLES l, bad
tvars == <<l, bad>>

Range(s) == {s[i] : i \in 1..Len(s)}

Explains(e) ==
  IF e.k = "check_output"
  THEN e.res = M!CheckOutput(e.got, e.want, Range(e.flags))
  ELSE /\ e.res = M!EllipsisGreedy(e.got, e.want)
       /\ e.res = M!EllipsisDecl(e.got, e.want)

TraceInit == l = 1 /\ bad = {}
TraceNext == /\ l <= Len(TraceLog)
             /\ l' = l + 1
             /\ bad' = IF Explains(TraceLog[l]) THEN bad ELSE bad \cup {l}
TraceSpec == TraceInit /\ [][TraceNext]_tvars

\* acceptance: every line consumed; the harness reads the BAD set
TraceAccepted ==
  LET d == TLCGet("stats").diameter IN
  /\ PrintT(<<"TRACE_DIAMETER", d, "LEN", Len(TraceLog)>>)
  /\ d - 1 = Len(TraceLog)
Report == (l = Len(TraceLog) + 1) => PrintT(<<"TRACE_BAD", bad>>)
=============================================================================
