------------------------------ MODULE PathCtx ------------------------------
(***************************************************************************)
(* util_import.PythonPathContext around the import of a module by path     *)
(* (import_module_from_path -> _custom_import_modpath -> with ctx: import). *)
(*                                                                         *)
(* sys.path is a sequence of entries.  Enter inserts the temporary         *)
(* directory TMP at the index the context was given (-1: at the end, 0: at *)
(* the front).  While the module is imported its own code may change       *)
(* sys.path (ModuleOp: insert at the front, append, drop the first entry,  *)
(* drop the last pre-existing entry, remove TMP itself, or bind sys.path to *)
(* a NEW list object with the same entries: `sys.path = list(...)`).  The  *)
(* context manager must work on whatever list sys.path names at exit, not  *)
(* on the object it saw at entry (variable rebound; deviation              *)
(* RememberedList).  The import                                            *)
(* succeeds or raises.  Exit transcribes __exit__: pop at the remembered   *)
(* index when TMP is still there, otherwise look TMP up and pop it         *)
(* (warning), otherwise RuntimeError.                                      *)
(*                                                                         *)
(* DECLARATIVE (C12/C17): afterwards sys.path is what it was before, as    *)
(* changed by the module's OWN operations - TMP is gone and nothing else   *)
(* was removed - whether or not the import succeeded.                      *)
(***************************************************************************)
EXTENDS Integers, Sequences, TLC

CONSTANTS MaxOps, Deviation

Base == <<"e1", "e2", "e3">>
Ops == {"ins0", "app", "pop0", "rmlast", "rmtmp", "rebind"}

VARIABLES path, index, pc, ops, raised, ghost, result, rebound
vars == <<path, index, pc, ops, raised, ghost, result, rebound>>
\* rebound: sys.path names another list object than at entry (same entries at the moment of the rebinding)
\* ghost: what sys.path would be if only the module's own operations had been applied to Base (TMP never inserted)

Init == path = Base /\ index = 0 /\ pc = "enter" /\ ops = <<>> /\ raised = FALSE /\ ghost = Base /\ result = "none" /\ rebound = FALSE

InsertAt(s, i, x) == SubSeq(s, 1, i) \o <<x>> \o SubSeq(s, i + 1, Len(s))       \* i = number of entries in front
RemoveAt(s, i) == SubSeq(s, 1, i - 1) \o SubSeq(s, i + 1, Len(s))                \* 1-based
IndexOf(s, x) == LET S == {i \in 1..Len(s) : s[i] = x} IN IF S = {} THEN 0 ELSE CHOOSE i \in S : \A j \in S : i <= j

Enter ==
  /\ pc = "enter"
  /\ \E given \in {-1, 0} :
       LET idx == IF given < 0 THEN Len(path) + given + 1 ELSE given IN
       /\ index' = idx /\ path' = InsertAt(path, idx, "TMP")
  /\ pc' = "import" /\ UNCHANGED <<ops, raised, ghost, result, rebound>>

Apply(s, op, isGhost) ==
  CASE op = "ins0" -> <<"M1">> \o s
    [] op = "app" -> Append(s, "M2")
    [] op = "pop0" -> IF Len(s) > 0 /\ (isGhost \/ s[1] # "TMP") THEN Tail(s) ELSE s
    [] op = "rmlast" -> LET S == {i \in 1..Len(s) : s[i] \in {"e1", "e2", "e3"}} IN
                        IF S = {} THEN s ELSE RemoveAt(s, CHOOSE i \in S : \A j \in S : j <= i)
    [] op = "rmtmp" -> IF isGhost \/ IndexOf(s, "TMP") = 0 THEN s ELSE RemoveAt(s, IndexOf(s, "TMP"))
    [] OTHER -> s

\* the module's own code runs: at most MaxOps changes of sys.path (pop0 never pops TMP: keeps ghost and path comparable)
ModuleOp ==
  /\ pc = "import" /\ Len(ops) < MaxOps
  /\ \E op \in Ops :
       /\ ~(op = "pop0" /\ Len(path) > 0 /\ path[1] = "TMP")
       /\ path' = Apply(path, op, FALSE) /\ ghost' = Apply(ghost, op, TRUE) /\ ops' = Append(ops, op)
       /\ rebound' = (rebound \/ op = "rebind")
  /\ UNCHANGED <<index, pc, raised, result>>

ImportEnds ==
  /\ pc = "import"
  /\ \E r \in BOOLEAN : raised' = r
  /\ pc' = "exit" /\ UNCHANGED <<path, index, ops, ghost, result, rebound>>

\* __exit__ (0-based self.index = index)
Exit ==
  /\ pc = "exit"
  /\ LET tooShort == Len(path) <= index
         \* before the fix the second test was an `if`, not an `elif`: indexing past the end raised IndexError
         indexError == tooShort /\ "NoElif" \in Deviation
         moved == ~tooShort /\ path[index + 1] # "TMP"
         needRecover == (tooShort \/ moved) /\ ~(raised /\ "NoRecoverOnError" \in Deviation)
         real == IndexOf(path, "TMP")
         \* a context that works on the list object remembered at entry changes an orphan: the live list keeps its entries
         orphan == rebound /\ "RememberedList" \in Deviation
     IN IF orphan THEN path' = path /\ result' = "ok"
        ELSE IF indexError THEN path' = path /\ result' = "IndexError"
        ELSE IF needRecover
             THEN IF real = 0 THEN path' = path /\ result' = "RuntimeError"        \* TMP is not there any more
                  ELSE path' = RemoveAt(path, real) /\ result' = "warned"
             ELSE path' = RemoveAt(path, index + 1) /\ result' = "ok"
  /\ pc' = "done" /\ UNCHANGED <<index, ops, raised, ghost, rebound>>

Emit == IF "Emit" \in Deviation THEN PrintT("XDV " \o ToString(<<index, ops, raised, path, ghost, result>>)) ELSE TRUE
Done == pc = "done" /\ pc' = "emitted" /\ Emit /\ UNCHANGED <<path, index, ops, raised, ghost, result, rebound>>

Next == Enter \/ ModuleOp \/ ImportEnds \/ Exit \/ Done
Spec == Init /\ [][Next]_vars

\* C12/C17: after the context sys.path is the original list as changed by the module itself: TMP gone, nothing else lost
Restored == pc \in {"done", "emitted"} => path = ghost
NoForeignError == pc \in {"done", "emitted"} => result \in {"ok", "warned", "RuntimeError"}
\* RuntimeError is raised only when the module itself removed the temporary entry
RuntimeErrorOnlyIfRemoved == (pc \in {"done", "emitted"} /\ result = "RuntimeError") => \E i \in 1..Len(ops) : ops[i] = "rmtmp"
=============================================================================
