------------------------------ MODULE Capture ------------------------------
(***************************************************************************)
(* utils.util_stream.CaptureStdout / TeeStringIO: the object DocTest.run    *)
(* enters once per part (`with cap:`) to record what the part prints and to *)
(* put sys.stdout back afterwards (C01: stdout recorded exactly per part;   *)
(* C12: sys.stdout restored).                                               *)
(*                                                                         *)
(* Streams: "base" (what sys.stdout was before anything happened) and one   *)
(* tee stream per capture object.  A capture object c is constructed at     *)
(* some moment (New): it remembers the stream sys.stdout names THEN         *)
(* (orig[c]) and, unless it suppresses, tees into it (redirect[c]).         *)
(* Enter = start(): sys.stdout := the tee stream, text := "".  Exit =       *)
(* __exit__: log_part (read the tee stream from the remembered position,    *)
(* append to parts, text := that piece) and stop (sys.stdout := orig[c]).   *)
(* Print writes one token to whatever sys.stdout names; a write to a tee    *)
(* stream is first passed on to its redirect (recursively), then stored.    *)
(* A disabled object does nothing at all.                                   *)
(*                                                                         *)
(* DECLARATIVE: ghosts computed from the nesting discipline (the stack of   *)
(* entered objects), not from streams and positions: seen[c] = the tokens   *)
(* printed since the last Enter of c while c was the innermost entered      *)
(* object or every object entered inside it passes its output on; hidden =  *)
(* the tokens printed while some entered object suppresses.  For objects    *)
(* entered under the stream they were constructed under and left in the     *)
(* reverse order of entering (what DocTest.run and `with` do):              *)
(*   PartsExact     every Exit logs exactly the tokens since the matching   *)
(*                  Enter: nothing lost, nothing twice, in order            *)
(*   SuppressHides  a token printed while a suppressing object is the       *)
(*                  innermost entered one never reaches the base stream     *)
(*   TeeShows       without suppression every token also reaches the base   *)
(*   RestoredLIFO   when objects are left in the reverse order of entering  *)
(*                  (what `with` guarantees) sys.stdout is the base stream  *)
(*                  again once all are left                                 *)
(*   DisabledInert  a disabled object never changes sys.stdout and records  *)
(*                  nothing (text stays None)                               *)
(*   NeverSwallows  leaving with an exception on its way out (Exit(c, TRUE)) *)
(*                  changes the state like any leave and returns falsey     *)
(***************************************************************************)
EXTENDS Integers, Sequences, TLC

CONSTANTS MaxOps, Deviation

Caps == {1, 2}
None == <<-1>>                      \* the text of an object that never logged / was never started

VARIABLES sysout,     \* "base" | "cap1" | "cap2"
          made,       \* [Caps -> BOOLEAN]
          suppress, enabled,
          orig,       \* [Caps -> stream]
          buf, pos, parts, text, started,
          base,       \* tokens that reached the base stream
          stack,      \* ghost: entered objects, innermost last
          seen,       \* ghost: tokens printed since the last Enter of c while c was entered and nothing entered inside it suppressed
          hidden,     \* ghost: tokens printed while some entered object suppresses
          wellUsed,   \* ghost: every object was entered while sys.stdout named the stream it was constructed under
          ret,        \* what the last __exit__ returned, as a truth value: TRUE would swallow the exception leaving the `with`
          ops, hist, tok
vars == <<sysout, made, suppress, enabled, orig, buf, pos, parts, text, started, base, stack, seen, hidden, wellUsed, ret, ops, hist, tok>>

StreamOf(c) == IF c = 1 THEN "cap1" ELSE "cap2"
CapOf(s) == IF s = "cap1" THEN 1 ELSE 2

Init ==
  /\ sysout = "base" /\ made = [c \in Caps |-> FALSE]
  /\ suppress \in [Caps -> BOOLEAN] /\ enabled \in {[c \in Caps |-> IF c = 1 THEN e ELSE TRUE] : e \in BOOLEAN}
  /\ orig = [c \in Caps |-> "base"]
  /\ buf = [c \in Caps |-> <<>>] /\ pos = [c \in Caps |-> 0] /\ parts = [c \in Caps |-> <<>>]
  /\ text = [c \in Caps |-> None] /\ started = [c \in Caps |-> FALSE]
  /\ base = <<>> /\ stack = <<>> /\ seen = [c \in Caps |-> <<>>] /\ hidden = {} /\ wellUsed = TRUE
  /\ ops = <<>> /\ hist = <<>> /\ tok = 0 /\ ret = FALSE

\* the streams a write to stream s reaches: s itself and, through the redirects, the streams below it
RECURSIVE Chain(_, _)
Chain(s, fuel) ==
  IF s = "base" \/ fuel = 0 THEN <<s>>
  ELSE LET c == CapOf(s) IN
       IF suppress[c] /\ "TeeWhenSuppressed" \notin Deviation THEN <<s>> ELSE <<s>> \o Chain(orig[c], fuel - 1)
Reached(s) == LET ch == Chain(s, 3) IN {ch[i] : i \in 1..Len(ch)}

Proj == [out |-> sysout, t1 |-> text[1], t2 |-> text[2], n1 |-> Len(parts[1]), n2 |-> Len(parts[2]), base |-> base, sw |-> ret]
Log(op) == ops' = Append(ops, op)

New(c) ==
  /\ ~made[c] /\ made' = [made EXCEPT ![c] = TRUE]
  /\ orig' = [orig EXCEPT ![c] = sysout]
  /\ Log(<<"new", c>>)
  /\ UNCHANGED <<sysout, suppress, enabled, buf, pos, parts, text, started, base, stack, seen, hidden, wellUsed, tok, ret>>

Enter(c) ==
  /\ made[c] /\ ~started[c]
  /\ IF enabled[c]
     THEN /\ sysout' = StreamOf(c) /\ text' = [text EXCEPT ![c] = <<>>] /\ started' = [started EXCEPT ![c] = TRUE]
          /\ stack' = Append(stack, c) /\ seen' = [seen EXCEPT ![c] = <<>>]
          /\ wellUsed' = (wellUsed /\ sysout = orig[c])
     ELSE UNCHANGED <<sysout, text, started, stack, seen, wellUsed>>
  /\ Log(<<"enter", c>>)
  /\ UNCHANGED <<made, suppress, enabled, orig, buf, pos, parts, base, hidden, tok, ret>>

Write ==
  /\ tok' = tok + 1
  /\ LET R == Reached(sysout) IN
     /\ buf' = [c \in Caps |-> IF StreamOf(c) \in R THEN Append(buf[c], tok') ELSE buf[c]]
     /\ base' = IF "base" \in R THEN Append(base, tok') ELSE base
  /\ seen' = [c \in Caps |-> IF \E i \in 1..Len(stack) : stack[i] = c /\ \A j \in (i + 1)..Len(stack) : ~suppress[stack[j]]
                               THEN Append(seen[c], tok') ELSE seen[c]]
  /\ hidden' = IF \E i \in 1..Len(stack) : suppress[stack[i]] THEN hidden \cup {tok'} ELSE hidden
  /\ Log(<<"print", tok'>>)
  /\ UNCHANGED <<sysout, made, suppress, enabled, orig, pos, parts, text, started, stack, wellUsed, ret>>

\* __exit__: log_part, then stop; exc = an exception is on its way out of the `with` block (DocTest.run leaves `with cap:` that way
\* whenever a part raises): the state changes are the same and the return value is falsey, so the exception goes on
Exit(c, exc) ==
  /\ made[c] /\ (started[c] \/ ~enabled[c])
  /\ IF enabled[c]
     THEN LET piece == SubSeq(buf[c], pos[c] + 1, Len(buf[c]))
              \* deviation: the whole buffer is logged again instead of the piece behind the remembered position
              logged == IF "NoPosition" \in Deviation THEN buf[c] ELSE piece IN
          /\ parts' = [parts EXCEPT ![c] = Append(@, logged)] /\ text' = [text EXCEPT ![c] = logged]
          /\ pos' = [pos EXCEPT ![c] = Len(buf[c])]
          /\ started' = [started EXCEPT ![c] = FALSE]
          \* deviation: the stream is put back only when sys.stdout still names this object's stream
          /\ sysout' = IF "RestoreOnlyIfOurs" \in Deviation /\ sysout # StreamOf(c) THEN sysout ELSE orig[c]
          /\ stack' = SelectSeq(stack, LAMBDA x : x # c)
     ELSE UNCHANGED <<parts, text, pos, started, sysout, stack>>
  /\ Log(<<IF exc THEN "exitx" ELSE "exit", c>>)
  \* deviation: a suppressing object also suppresses the exception
  /\ ret' = (exc /\ enabled[c] /\ suppress[c] /\ "SwallowWhenSuppressed" \in Deviation)
  /\ UNCHANGED <<made, suppress, enabled, orig, buf, base, seen, hidden, wellUsed, tok>>

Step == (\E c \in Caps : New(c) \/ Enter(c) \/ Exit(c, FALSE) \/ Exit(c, TRUE)) \/ Write

Next ==
  \/ /\ Len(ops) < MaxOps /\ Step /\ hist' = Append(hist, Proj')
  \/ /\ Len(ops) = MaxOps /\ Len(hist) = MaxOps
     /\ IF "Emit" \in Deviation THEN PrintT("XDV " \o ToString(<<suppress, enabled, ops, hist>>)) ELSE TRUE
     /\ hist' = Append(hist, Proj) /\ UNCHANGED <<sysout, made, suppress, enabled, orig, buf, pos, parts, text, started, base, stack, seen, hidden, wellUsed, ops, tok, ret>>

Spec == Init /\ [][Next]_vars

-----------------------------------------------------------------------------
\* the last step was the Exit of an enabled object c
IsExit(o, c) == o = <<"exit", c>> \/ o = <<"exitx", c>>
JustExited(c) == Len(ops) > 0 /\ IsExit(ops[Len(ops)], c) /\ enabled[c] /\ Len(hist) = Len(ops)

LIFO == \* the objects were left in the reverse order of entering so far: every exit concerned the innermost entered object
  \A i \in 1..Len(ops) : ops[i][1] \in {"exit", "exitx"} =>
     LET c == ops[i][2]
         \* objects entered before i and not left before i
         open == {d \in Caps : enabled[d] /\ \E j \in 1..(i - 1) : ops[j] = <<"enter", d>> /\ \A k \in (j + 1)..(i - 1) : ~IsExit(ops[k], d)}
         lastEnter(d) == CHOOSE j \in 1..(i - 1) : ops[j] = <<"enter", d>> /\ \A k \in (j + 1)..(i - 1) : ops[k] # <<"enter", d>>
     IN enabled[c] => \A d \in open \ {c} : lastEnter(d) < lastEnter(c)
\* an object puts back the stream it saw when it was CONSTRUCTED, not the one it replaced when it was entered: the promises
\* below are made for objects entered under the stream they were constructed under (ghost wellUsed; what DocTest.run does)
PartsExact == (LIFO /\ wellUsed) => \A c \in Caps : JustExited(c) => text[c] = seen[c] /\ parts[c][Len(parts[c])] = seen[c]
\* all the pieces of an object together are everything its stream ever received, once, in order
RECURSIVE Concat(_)
Concat(ss) == IF ss = <<>> THEN <<>> ELSE Head(ss) \o Concat(Tail(ss))
NothingLostOrTwice == (LIFO /\ wellUsed) => \A c \in Caps : (made[c] /\ ~started[c] /\ enabled[c]) => Concat(parts[c]) = buf[c]
InBase(t) == \E i \in 1..Len(base) : base[i] = t
SuppressHides == (LIFO /\ wellUsed) => \A t \in 1..tok : t \in hidden <=> ~InBase(t)
TeeShows == (\A c \in Caps : ~suppress[c]) => base = [i \in 1..tok |-> i]
RestoredLIFO == (LIFO /\ wellUsed /\ stack = <<>>) => sysout = "base"
DisabledInert == \A c \in Caps : ~enabled[c] => (text[c] = None /\ parts[c] = <<>> /\ ~started[c] /\ sysout # StreamOf(c))
\* leaving never swallows: whatever was raised inside the `with` block is still on its way out afterwards
NeverSwallows == ret = FALSE
=============================================================================
