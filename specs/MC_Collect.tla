----------------------------- MODULE MC_Collect -----------------------------
(* Alphabets for the TLC runs over Collect.tla *)
EXTENDS Collect

Doc(kind, q, opn, cls, lead, nblk, inlead, nsrc, nwant) ==
  [kind |-> kind, q |-> q, opn |-> opn, cls |-> cls, lead |-> lead, nblk |-> nblk, inlead |-> inlead, nsrc |-> nsrc, nwant |-> nwant, hdr |-> "none"]
DocH(kind, q, opn, cls, lead, nblk, inlead, nsrc, nwant, hdr) == [Doc(kind, q, opn, cls, lead, nblk, inlead, nsrc, nwant) EXCEPT !.hdr = hdr]
It(k, depth, deco, nd, sig2, gap, doc) == [k |-> k, depth |-> depth, deco |-> deco, nd |-> nd, sig2 |-> sig2, gap |-> gap, doc |-> doc, nm |-> 0]

Free1 == Doc("free", "d3", "own", "own", 1, 1, 0, 1, 1)
Free2 == Doc("free", "s3", "shared", "own", 0, 2, 0, 1, 1)
Goog1 == Doc("goog", "d3", "own", "own", 1, 1, 0, 1, 1)
Goog2 == Doc("goog", "r", "own", "own", 0, 2, 0, 1, 0)
TextD == Doc("text", "d3", "own", "own", 0, 0, 0, 0, 0)

\* ---- C07: structure.  Every kind x decorator x depth, three docstring kinds
C07_Docs == {NoDoc, Free1, Goog2}
C07_Items == {It(k, d, "none", 0, FALSE, 0, doc) : k \in {"def", "adef", "class"}, d \in 0..2, doc \in C07_Docs}
             \cup {It(k, d, "none", 0, FALSE, 0, NoDoc) : k \in {"iftrue", "ifmain", "try", "with"}, d \in 0..1}
             \cup {It("def", d, deco, 0, FALSE, 0, Free1) : d \in 1..2, deco \in {"property", "setter", "deleter", "static", "classm"}}
             \cup {It(k, d, deco, 0, FALSE, 0, Goog1) : k \in {"def", "adef"}, d \in 0..1, deco \in {"plain", "wraps"}}
C07_ModDocs == {NoDoc, Free1, Goog2}
\* a core alphabet for longer modules (4 items): every kind and decorator once, two docstring kinds
C07_Core == {It(k, d, "none", 0, FALSE, 0, doc) : k \in {"def", "class"}, d \in 0..2, doc \in {NoDoc, Goog2}}
            \cup {It("adef", 1, "none", 0, FALSE, 0, Free1)}
            \cup {It(k, d, "none", 0, FALSE, 0, NoDoc) : k \in {"iftrue", "ifmain", "try"}, d \in 0..1}
            \cup {It("def", 1, deco, 0, FALSE, 0, Free1) : deco \in {"property", "setter", "static"}}
            \cup {It("def", 0, "wraps", 0, FALSE, 0, Goog1)}
\* freeform layouts with a word that switches one group of prompt lines off (Benchmark:, Script:, ...)
C07_HdrDocs == {DocH("free", "d3", "own", "own", lead, nblk, 0, nsrc, 1, hdr) : lead \in 1..2, nblk \in 1..2, nsrc \in {1, 3}, hdr \in {"none", "lead", "mid", "both"}}
C07_HdrItems == {It(k, d, "none", 0, FALSE, 0, doc) : k \in {"def", "class"}, d \in 0..1, doc \in {x \in C07_HdrDocs : x.nblk = 2 \/ x.hdr \in {"none", "lead"}}}
C07_HdrFill == {It("class", 0, "none", 0, FALSE, 0, NoDoc), It("def", 0, "none", 0, FALSE, 0, Free1)}
C07_HdrModDocs == {NoDoc, DocH("free", "d3", "own", "own", 1, 2, 0, 1, 1, "lead"), DocH("free", "d3", "own", "own", 1, 2, 0, 1, 1, "both")}

\* ---- C16: importable modules (definitions are executed at import)
C16_Items == {It(k, d, "none", 0, FALSE, 0, doc) : k \in {"def", "adef", "class"}, d \in 0..2, doc \in {NoDoc, Free1, Goog1}}
             \cup {It(k, d, "none", 0, FALSE, 0, NoDoc) : k \in {"iftrue", "ifmain", "try", "with"}, d \in 0..1}
             \cup {It("def", 1, deco, 0, FALSE, 0, Free1) : deco \in {"property", "setter", "static", "classm"}}
             \cup {It(k, d, deco, 0, FALSE, 0, Free1) : k \in {"def", "adef"}, d \in 0..1, deco \in {"plain", "wraps"}}

\* ---- clauses: documented definitions inside except / else / finally / case / if-else / for-else clauses and for bodies,
\*      at module level, in a class body, nested in each other
Clause_Items == {It(k, d, "none", 0, FALSE, 0, NoDoc) : k \in ClauseKinds \cup {"try"}, d \in 0..1}
                \cup {It(k, d, "none", 0, FALSE, 0, Free1) : k \in {"def", "adef", "class"}, d \in 0..2}
                \cup {It("class", 0, "none", 0, FALSE, 0, NoDoc), It("def", 1, "static", 0, FALSE, 0, Free1), It("ifmain", 0, "none", 0, FALSE, 0, NoDoc)}
                \* a property whose setter / deleter carries a further decorator (written above or below the .setter line)
                \cup {It("def", 1, "property", 0, FALSE, 0, Free1), It("def", 1, "setter", 1, FALSE, 0, Free1), It("def", 1, "deleter", 1, FALSE, 0, NoDoc)}

\* ---- properties: getter, setter, deleter (with and without a further decorator, with and without docstrings) in one class
Setter_Items == {It("class", 0, "none", 0, FALSE, 0, NoDoc), It("def", 1, "none", 0, FALSE, 0, Free1)}
                \cup {It("def", 1, "property", 0, FALSE, 0, doc) : doc \in {Free1, Goog1}}
                \cup {It("def", 1, deco, nd, FALSE, 0, doc) : deco \in {"setter", "deleter"}, nd \in 0..1, doc \in {NoDoc, Free1}}

\* a core alphabet for longer modules (4 items)
C16_Core == {It(k, d, "none", 0, FALSE, 0, doc) : k \in {"def", "class"}, d \in 0..2, doc \in {NoDoc, Free1}}
            \cup {It(k, d, "none", 0, FALSE, 0, NoDoc) : k \in {"iftrue", "ifmain", "try"}, d \in 0..1}
            \cup {It("def", 1, deco, 0, FALSE, 0, Free1) : deco \in {"property", "static"}}
            \cup {It("adef", 0, "wraps", 0, FALSE, 0, Free1)}

\* ---- C08: layouts.  One-line docstrings, every quote prefix, opening/closing variants, leading prose,
\*      google blocks (body starting with prose/blank = F12), 1-2 groups, 1 or 3 source lines, 0-2 want lines
C08_DocsFull == {Doc(kind, q, opn, cls, lead, nblk, inlead, nsrc, nwant) :
                   kind \in {"free", "goog"}, q \in {"d3", "s3", "r", "R", "u"}, opn \in {"own", "shared"}, cls \in {"own", "text", "comment", "textc"},
                   lead \in 0..2, nblk \in 1..2, inlead \in 0..2, nsrc \in {1, 3}, nwant \in 0..2}
\* excluded: a multi-line statement that starts on the line of the opening quotes (its continuation lines are indented,
\* the first line is not: neither xdoctest nor the standard doctest module can read that)
C08_Docs == {d \in C08_DocsFull : (d.kind = "free" => d.inlead = 0) /\ (d.opn = "shared" /\ d.kind = "goog" => d.lead > 0)
                                   /\ ~(d.opn = "shared" /\ d.kind = "free" /\ d.lead = 0 /\ d.nsrc = 3)}
            \cup {Doc("free", "one", "shared", "text", 0, 1, 0, 1, 0)}
            \* freeform layouts whose first or second group is switched off by a skip word (the lines of a switched-off group,
            \* wants included, still count towards the start line of the doctest)
            \cup {DocH("free", "d3", "own", "own", lead, 2, 0, 3, nwant, hdr) : lead \in 1..2, nwant \in 1..2, hdr \in {"lead", "mid"}}
C08_Main == {It(k, 0, "none", nd, sig2, gap, doc) : k \in {"def"}, nd \in 0..1, sig2 \in BOOLEAN, gap \in 0..1, doc \in C08_Docs}
C08_Fill == {It("def", 0, "none", 0, FALSE, 1, TextD), It("class", 0, "none", 0, FALSE, 0, NoDoc), It("try", 0, "none", 0, FALSE, 0, NoDoc),
             It("def", 1, "plain", 1, FALSE, 0, Free2)}
C08_Items == C08_Main \cup C08_Fill
C08_HdrMain == {i \in C08_Main : i.doc.hdr # "none"}
C08_MainQ == {i \in C08_Main : i.gap = 0 /\ i.doc.lead \in {0, 2} /\ i.doc.nwant \in {0, 2}}
C08_ItemsQ == C08_MainQ \cup C08_Fill
C08_ModDocs == {NoDoc, Goog2, Doc("free", "R", "own", "comment", 2, 1, 0, 3, 2)}
\* a reduced layout set for modules whose docstring-bearing item is nested (method of a class, def under if True)
C08_DocsSmall == {d \in C08_Docs : d.lead \in {0, 2} /\ d.nsrc = 3 /\ d.nwant \in {0, 2} /\ d.inlead \in {0, 1} /\ d.q \in {"d3", "R", "u", "one"}}
C08_Nested == {It("def", 1, deco, nd, FALSE, 1, doc) : deco \in {"none", "static", "plain"}, nd \in 0..1, doc \in C08_DocsSmall}
C08_NestFill == {It("class", 0, "none", 0, FALSE, 0, NoDoc), It("class", 0, "none", 0, FALSE, 1, Free1), It("iftrue", 0, "none", 0, FALSE, 0, NoDoc)}
C08_NItems == C08_Nested \cup C08_NestFill
=============================================================================
