----------------------------- MODULE SearchPath -----------------------------
(***************************************************************************)
(* A search path of SEVERAL entries (sys.path / the sys_path argument of    *)
(* modname_to_modpath).  Every entry is a directory tree as in ModPath.tla; *)
(* the trees are built one after the other (Build of ModPath, CloseRoot).   *)
(*                                                                         *)
(* OPERATIONAL (util_import._syspath_modname_to_modpath): the candidate     *)
(* directories are tried in order; in each one check_dpath looks for the    *)
(* WHOLE dotted name (package directory, then module file, parents must be  *)
(* packages up to the entry); the first entry where that succeeds wins.     *)
(*                                                                         *)
(* DECLARATIVE (the interpreter): the FIRST entry that provides the         *)
(* top-level name - as a regular package or as a module file, a package     *)
(* before a file within one entry - decides; the rest of the dotted name is *)
(* looked up inside that package only (its __path__), never in later        *)
(* entries.  A directory without __init__.py provides nothing.              *)
(*                                                                         *)
(* The two differ exactly when an earlier entry provides the top-level name *)
(* but not the whole name and a later entry provides the whole name         *)
(* (Shadowed: the interpreter finds NOTHING, the code answers with the      *)
(* later entry.  This is a named, known deviation of the code (finding      *)
(* F24); everywhere else the two must agree (MultiResolveIsImport).         *)
(***************************************************************************)
EXTENDS ModPath

CONSTANT NRoots

VARIABLE roots            \* the completed trees of the earlier entries, in search order
mvars == <<tree, idx, pc, roots>>

MInit == Init /\ roots = <<>>

MBuild == Build /\ UNCHANGED roots

CloseRoot ==
  /\ pc = "build" /\ idx > Len(PathList) /\ Len(roots) < NRoots - 1
  /\ roots' = Append(roots, tree) /\ tree' = <<>> /\ idx' = 1 /\ UNCHANGED pc

All == Append(roots, tree)

First(S) == CHOOSE i \in S : \A j \in S : i <= j

\* OPERATIONAL: first entry in which the whole name resolves.  Deviation PackagesFirst: a pass over all entries that looks
\* for package directories only comes first (a package in a later entry then beats a module file in an earlier one)
OpResolveMulti(ts, q) ==
  LET S == {i \in 1..Len(ts) : OpResolve(ts[i], q) # None}
      P == {i \in S : OpResolve(ts[i], q)[1] = "pkg"}
  IN IF "PackagesFirst" \in Deviation /\ P # {} THEN <<First(P), OpResolve(ts[First(P)], q)>>
     ELSE IF S = {} THEN <<0, None>> ELSE <<First(S), OpResolve(ts[First(S)], q)>>

\* DECLARATIVE: the first entry that provides the top-level name decides
Provides(t, name) == Level(t, <<name>>) # "none"
DeclResolveMulti(ts, q) ==
  LET S == {i \in 1..Len(ts) : Provides(ts[i], q[1])}
  IN IF S = {} THEN <<0, None>>
     ELSE LET r == DeclResolve(ts[First(S)], q) IN IF r = None THEN <<0, None>> ELSE <<First(S), r>>

\* the known deviation (F24): the entry the code answers with is shadowed by an earlier entry that provides the top-level name
Shadowed(ts, q) ==
  LET op == OpResolveMulti(ts, q) IN
  op[1] > 0 /\ DeclResolveMulti(ts, q) = <<0, None>> /\ \E i \in 1..(op[1] - 1) : Provides(ts[i], q[1])

Emit2 == IF "Emit" \in Deviation
         THEN PrintT("XDV " \o ToString(<<All, {<<q, OpResolveMulti(All, q), DeclResolveMulti(All, q), Shadowed(All, q)>> : q \in Queries}>>))
         ELSE TRUE

MFinish ==
  /\ pc = "build" /\ idx > Len(PathList) /\ Len(roots) = NRoots - 1
  /\ pc' = "done" /\ Emit2
  /\ UNCHANGED <<tree, idx, roots>>

MNext == MBuild \/ CloseRoot \/ MFinish
MSpec == MInit /\ [][MNext]_mvars

-----------------------------------------------------------------------------
MultiResolveIsImport ==
  pc = "done" => \A q \in Queries : OpResolveMulti(All, q) = DeclResolveMulti(All, q) \/ Shadowed(All, q)
\* with one entry the search is the single-entry resolution
OneRootIsModPath == (pc = "done" /\ Len(All) = 1) => \A q \in Queries : OpResolveMulti(All, q)[2] = OpResolve(tree, q)
\* whatever is found lies in an entry that really holds the whole name
FoundIsThere == pc = "done" => \A q \in Queries : LET r == OpResolveMulti(All, q) IN r[1] > 0 => DeclResolve(All[r[1]], q) = r[2]
\* the known deviation is reachable (otherwise the exemption above would be vacuous) - checked as an invariant that must FAIL
NeverShadowed == pc = "done" => \A q \in Queries : ~Shadowed(All, q)
=============================================================================
