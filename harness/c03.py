"""C03 - exceptions are never swallowed; only a matching expected traceback passes.

spec  : specs/DocRun.tla, alphabet C03_Parts (MC_DocRun.tla): raising parts
        (direct raise / raise after printing / raise inside called code) x want
        forms {none, non-traceback text, traceback exact / with stack lines /
        wrong message / "..." message / wrong type / unqualified name} x inline
        and block settings of IGNORE_EXCEPTION_DETAIL, ELLIPSIS, IGNORE_WANT,
        traceback wants on code that does not raise, and ordinary parts around.
        Invariants: OutcomeIsRef (reference: RefPartOutcome/ExcAccepted),
        ExecutedOnceInOrder (statements after an expected exception run).
replay: every terminal state is rendered (exception class, message and call
        depth rotate over builtin / module-qualified classes and empty,
        multi-line, colon, ellipsis messages) and run by the real DocTest.run;
        a failure by exception must carry exactly the raised class.
"""
from . import common, runlib

BOUNDS = {'quick': 3, 'thorough': 3}  # 4 parts: see the simulation run


def extra(exp, obs, wants, rot):
    bad = []
    prog = exp['prog']
    if exp['result'] == 'failed' and exp['exc_kind'] == 'exc' and exp['failed_part'] > 0:
        k = exp['failed_part']
        part = prog[k - 1]
        cls, msg = runlib.exc_for(k, part['want'], rot + 7 * (k - 1))
        if obs.get('exc_type') != cls[2]:
            bad.append(('original_exception_type', cls[2], obs.get('exc_type')))
        dt = obs.get('dt')
        if dt is not None and dt.exc_info is not None and cls[0] != 'KeyError':
            if str(dt.exc_info[1]) != msg:
                bad.append(('original_exception_message', msg, str(dt.exc_info[1])))
    return bad


def nontrivial(info):
    return any(k[0] in ('raise', 'praise') for k in info['key'][0])


def run(tier):
    out = common.Outcome('C03', tier)
    n = BOUNDS[tier]
    out.rule = ('every program of <= %d parts over C03_Parts (50 part kinds) reachable in DocRun.tla, one case per terminal state; '
                'non-trivial when a part raises; distinct by the sequence of (body, want, directives) kinds' % n)
    runs = [dict(label='C03/return', parts='C03_Parts', maxparts=n, limit=300000 if tier == 'thorough' else None),
            dict(label='C03/raise', parts='C03_Parts', maxparts=max(1, n - 1), onerrors=('raise',), modes=('pytest',))]
    runlib.docrun_check(out, runs, nontrivial_fn=nontrivial, extra_check=extra)
    for dev in ('NonTracebackWantHides', 'BreakAfterExpectedExc'):
        runlib.deviation_must_fail(out, 'C03_Parts', 2, dev)
    out.assumptions = ['exception classes: ValueError, KeyError, module-qualified xdvhelp.CustomErr; messages from 7 templates; '
                       'raised directly or from a called helper',
                       'the comparison of the final traceback line under ELLIPSIS is the checker of C05/C06']
    # random longer programs (5..8 parts) from TLC's simulation mode over the same specification
    runlib.simulate_replay(out, 'C03_Parts' + ' 5..8 parts', 'C03_Parts', 5, 8, 800 if tier == 'quick' else 15000, extra_check=extra, nontrivial_fn=nontrivial)
    from . import tracelib
    tracelib.traced_replay(out, 'C03_Parts<=1', 'C03_Parts', 1)
    return out.finish()


replay = runlib.generic_replay
