"""C18 - displayed doctest source is faithful and re-parses to the same doctest.

spec  : specs/DocParse.tla, second round (Deviation flag "Reparse"): after a
        docstring of C18_Blocks (C01_Blocks without the empty-line statement) has been labelled, grouped and packaged, its
        formatted source (Formatted: the source lines as the parts keep them -
        an unprefixed string line has become a "... " line - and the want
        lines, text dropped) is fed to the same labeller/grouper/packager
        again.  Invariant ReparseSame: same flattened executable lines, same
        wants at the same places, same evaluation mode for every want-bearing
        part, and no parse error.
replay: for every finished docstring the real DocTest.format_src is compared
        line by line with Formatted (prompts+wants), with the de-prompted
        executable lines (prompts off, wants off), and the numbers shown in the
        left margin with the position of the line in the doctest / in the file
        (doctest-relative and file-relative numbering, several start lines);
        the formatted text is parsed again by the real parser and must give the
        same executable lines, wants and modes as the original parts.
"""
import re
import warnings

from . import common, parselib

BOUNDS = {'quick': [('C18_Blocks', 3, 60000)], 'thorough': [('C18_Blocks', 3, None), ('C18_Blocks', 4, 250000)]}


def _flat(parts):
    execs, wants = [], []
    for p in parts:
        if isinstance(p, str):
            continue
        execs += list(p.exec_lines)
        if p.want:
            wants.append((len(execs), p.want, p.compile_mode))
    return execs, wants


def extra(case, lines, rot):
    if case['err'] != 'none' or case['f11']:
        return []
    if any(b.get('shape') in ('f9', 'f10') for b in case['blocks']):
        return []                         # known findings F9/F10 (C01): these doctests cannot be parsed at all
    from xdoctest import doctest_example, parser
    bad = []
    text = '\n'.join(lines)
    start = [1, 7, 98, 1234][rot % 4]
    with warnings.catch_warnings():
        warnings.simplefilter('ignore')
        dt = doctest_example.DocTest(text, callname='c18', lineno=start)
        dt._parse()
    # expected formatted lines from the abstract line list
    exp, exp_idx, exp_exec, exp_mixed = [], [], [], []
    expanded = [t.expandtabs() for t in lines]
    common_indent = min([len(t) - len(t.lstrip(' ')) for t in expanded if t.strip()] or [0])
    chunk_ind = {}
    for p in case['parts']:
        if p[0] == 'code':
            for j in list(range(p[1], p[2] + 1)) + list(range(p[3], p[4] + 1)):
                chunk_ind[j] = case['lines'][p[1] - 1][1]          # a chunk is de-indented by the indentation of its source
    for j, ((k, ind, sid), lab, t) in enumerate(zip(case['lines'], case['labels'], lines), 1):
        if lab == 'text':
            continue
        body = t.expandtabs()[common_indent:]
        ci = chunk_ind.get(j, ind)
        body = body[4 * ci:] if body[:4 * ci].strip() == '' else body.lstrip()
        if k == 'raw':
            body = '... ' + body
        exp.append(body)
        if lab != 'want':
            exp_idx.append(j)
            exp_exec.append(body[4:])
            exp_mixed.append(body[4:])
        else:
            exp_mixed.append(body)
    if not exp:
        return []
    got = dt.format_src(linenos=False, colored=False, want=True, prefix=True).split('\n')
    if got != exp:                      # exact, trailing blanks included
        bad.append(('format_src(prompts,wants)', exp, got))
    # source without prompts, wants kept (rendered FIRST among the prompt-less views: rendering must not change what is rendered)
    got3 = dt.format_src(linenos=False, colored=False, want=True, prefix=False).split('\n')
    if [g for g in got3 if g.strip()] != [e for e in exp_mixed if e.strip()]:
        bad.append(('format_src(no prompts,wants)', exp_mixed, got3))
    got2 = dt.format_src(linenos=False, colored=False, want=False, prefix=False).split('\n')
    # a bare "..." terminator is an empty executable line; without prompts it has no text to show
    if [g for g in got2 if g.strip()] != [e for e in exp_exec if e.strip()] and exp_exec:
        bad.append(('format_src(no prompts,no wants)', exp_exec, got2))
    # numbers
    for offset in (False, True):
        txt = dt.format_src(linenos=True, colored=False, want=True, prefix=True, offset_linenos=offset).split('\n')
        nums = []
        for ln in txt:
            m = re.match(r'^\s*(\d+) (>>>|\.\.\.)', ln)
            if m:
                nums.append(int(m.group(1)))
        want_nums = [j + (start - 1 if offset else 0) for j in exp_idx]
        if nums != want_nums:
            bad.append(('line_numbers(offset=%s,start=%d)' % (offset, start), want_nums, nums))
        if len(txt) != len(exp):
            bad.append(('numbered_line_count', len(exp), len(txt)))
    # numbers without prompts: every displayed source line carries its position; an empty executable line at the END of a part
    # (a bare "..." terminator) has no text to show and is not displayed, one in the middle is
    exec_of = dict(zip(exp_idx, exp_exec))
    shown = []
    for p in case['parts']:
        if p[0] != 'code':
            continue
        js = [j for j in range(p[1], p[2] + 1) if j in exec_of]
        while js and not exec_of[js[-1]].strip():
            js.pop()
        shown += js
    for offset in (False, True):
        txt = dt.format_src(linenos=True, colored=False, want=False, prefix=False, offset_linenos=offset).split('\n')
        nums = [int(m.group(1)) for m in (re.match(r'^\s*(\d+)( |$)', ln) for ln in txt) if m]
        want_nums = [j + (start - 1 if offset else 0) for j in shown]
        if nums != want_nums:
            bad.append(('line_numbers_without_prompts(offset=%s,start=%d)' % (offset, start), want_nums, nums))
    # the same docstring as the freeform collector builds it (all groups lumped into one doctest, prose dropped): the numbers
    # are positions counted from the first prompt line / in the file
    from xdoctest import core
    with warnings.catch_warnings():
        warnings.simplefilter('ignore')
        exs = list(core.parse_docstr_examples(text, callname='c18', style='freeform', lineno=start))
    if len(exs) == 1 and exp_idx:
        e = exs[0]
        for offset in (False, True):
            txt = e.format_src(linenos=True, colored=False, want=True, prefix=True, offset_linenos=offset).split('\n')
            nums = []
            for ln in txt:
                m = re.match(r'^\s*(\d+) (>>>|\.\.\.)', ln)
                if m:
                    nums.append(int(m.group(1)))
            want_nums = [(j + start - 1) if offset else (j - exp_idx[0] + 1) for j in exp_idx]
            if nums != want_nums:
                bad.append(('freeform_line_numbers(offset=%s,start=%d)' % (offset, start), want_nums, nums))
    elif exp_idx:
        bad.append(('freeform_collection', 'one doctest', len(exs)))
    # rendering is read-only: the same views once more, after all the others
    again = dt.format_src(linenos=False, colored=False, want=True, prefix=True).split('\n')
    if again != got:
        bad.append(('format_src_repeatable(prompts,wants)', got, again))
    again3 = dt.format_src(linenos=False, colored=False, want=True, prefix=False).split('\n')
    if again3 != got3:
        bad.append(('format_src_repeatable(no prompts,wants)', got3, again3))
    # parse the formatted text again
    if exp:
        try:
            with warnings.catch_warnings():
                warnings.simplefilter('ignore')
                parts2 = parser.DoctestParser().parse('\n'.join(got))
        except Exception as ex:
            bad.append(('reparse', 'parts', repr(ex)[:200]))
        else:
            a, b = _flat(dt._parts), _flat(parts2)
            if a[0] != b[0]:
                bad.append(('reparse_exec_lines', a[0], b[0]))
            if a[1] != b[1]:
                # known finding F23: the display leaves out the blank line / prose between two chunks; a ';' in the earlier chunk then
                # turns the mode of the later chunk's final expression from eval into single when the text is parsed again
                merged_semi = (len(a[1]) == len(b[1]) and all(x[:2] == y[:2] and (x[2] == y[2] or (x[2], y[2]) == ('eval', 'single')) for x, y in zip(a[1], b[1]))
                               and any(bl.get('shape') == 'semi' for bl in case['blocks']))
                bad.append(('reparse_mode_after_merging_a_semicolon_chunk' if merged_semi else 'reparse_wants_modes', a[1], b[1]))
    return bad


def sig(info):
    fields = sorted({b[0].split('(')[0].rstrip('0123456789') for b in info['bad']})
    return {'kind': 'format_replay', 'fields': ','.join(fields)}


def run(tier):
    out = common.Outcome('C18', tier)
    parselib.self_check_templates()
    parselib._JOB['outcome_only_when_f11'] = True       # docstrings with the known finding F11 are the business of C13/C01
    parselib._JOB['skip_shapes'] = ('f9', 'f10')
    out.rule = 'every docstring of <= N building blocks over C18_Blocks (= C01_Blocks without the empty-line statement) in DocParse.tla with the second (re-parse) round; replay of the finished docstrings (sampled where stated)'
    # spec level: the second round
    n = 3
    res = common.run_tlc('MC_DocParse', parselib.cfg('C18_Blocks', n, parselib.INVS + ['ReparseSame'], deviation=('Reparse',)), timeout=2400)
    common.tlc_must_pass(res, 'DocParse reparse round')
    out.add_tlc(res, 'exhaustive:reparse C18_Blocks<=%d' % n)
    if res.violated:
        raise common.MachineryError('spec-level invariant %s violated on the unchanged spec:\n%s' % (res.violated, res.stdout[-3000:]))
    common.cleanup_scratch()
    for blocks, nb, limit in BOUNDS[tier]:
        parselib.run_space(out, '%s<=%d' % (blocks, nb), blocks, nb, sig, extra=extra, limit=limit)
    out.exhaustive = not out.extra.get('replay_sampled', False)
    out.assumptions = ['"the same executable lines, wants and evaluation modes": flattened executable lines, each want with the number of executable '
                       'lines before it, and the compile mode of each want-bearing part; boundaries between want-less parts are not compared',
                       'colours off']
    return out.finish()


def replay(path):
    import json
    d = json.load(open(path))['detail']
    print(d['text'])
    print('disagreements:', d['disagreements'])
    return 0
