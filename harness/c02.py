"""C02 - got/want verdicts are exact.

spec  : specs/DocRun.tla with the alphabet C02_Parts of MC_DocRun.tla: every
        program of <= N parts over 8 body kinds x 9 want kinds; wants are
        defined from the program (Since/own/repr/corruptions); invariants
        OutcomeIsRef etc. compare the operational run loop with the reference.
replay: every terminal state -> doctest text -> real DocTest.run; verdict,
        exception type, failing part, executed statements (TRACE), logged
        stdout per part, skipped parts, length of the unmatched buffer, and
        the parts the real parser produced must equal the prediction.
"""
import json

from . import common, runlib

BOUNDS = {'quick': dict(maxparts=3, limit=None), 'thorough': dict(maxparts=4, limit=400000)}


def sig(info):
    fields = sorted({b[0] for b in info['bad']})
    return {'kind': 'replay', 'fields': ','.join(fields)}


def nontrivial(info):
    # at least one want is evaluated or something is skipped/fails
    return any(k[1] != 'none' for k in info['key'][0])


def run(tier):
    out = common.Outcome('C02', tier)
    b = BOUNDS[tier]
    out.rule = ('every program of <= %d parts over C02_Parts (MC_DocRun.tla) reachable in DocRun.tla, one case per terminal state; '
                'non-trivial when at least one part carries a want; distinct by the sequence of (body, want) kinds' % b['maxparts'])
    for onerr, mode in (('return', 'native'),) + ((('raise', 'pytest'),) if True else ()):
        mp = b['maxparts'] if onerr == 'return' else min(b['maxparts'], 2 if tier == 'quick' else 3)
        res = common.run_tlc('MC_DocRun', runlib.docrun_cfg('C02_Parts', mp, runlib.DOCRUN_INVS, onerrors=(onerr,), modes=(mode,)),
                             dump=True, timeout=1500, coverage=False)
        common.tlc_must_pass(res, 'DocRun C02')
        out.add_tlc(res, 'exhaustive:%s/%s' % (onerr, mode))
        if res.violated:
            raise common.MachineryError('spec-level invariant %s violated on the unchanged spec:\n%s' % (res.violated, res.stdout[-3000:]))
        runlib.replay_dump(out, res.dump, sig, nontrivial, limit=b['limit'])
        common.cleanup_scratch()
    out.exhaustive = not out.extra.get('replay_sampled', False)
    out.assumptions = ['output matching inside a want is token equality here; the character-level relation is C05/C06',
                       'bodies are realised by the statement templates of harness/runlib.py (rotated by case hash + VERIF_SEED)']
    # random longer programs (5..8 parts) from TLC's simulation mode over the same specification
    runlib.simulate_replay(out, 'C02_Parts' + ' 5..8 parts', 'C02_Parts', 5, 8, 800 if tier == 'quick' else 15000)
    from . import tracelib
    tracelib.traced_replay(out, 'C02_Parts<=2', 'C02_Parts', 2)
    tracelib.suite_phase(out, tier)
    return out.finish()


def replay(path):
    d = json.load(open(path))['detail']
    print(d['text'])
    print('predicted:', d['predicted'])
    print('disagreements:', d['disagreements'])
    return 0
