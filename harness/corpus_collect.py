"""Code -> spec for the collector on real modules (used by C07): the visitor model and the declarative inventory of
Collect.tla are evaluated by TLC on the item lists of real source files and compared with the real static collector."""
import ast
import glob
import json
import os
import warnings

from . import common, tlaval

NODOC = {'kind': 'none', 'q': 'd3', 'opn': 'own', 'cls': 'own', 'lead': 0, 'nblk': 0, 'inlead': 0, 'nsrc': 0, 'nwant': 0, 'hdr': 'none'}


def _is_main_guard(node):
    t = node.test
    try:
        return (isinstance(t, ast.Compare) and isinstance(t.ops[0], ast.Eq) and t.left.id == '__name__' and t.comparators[0].value == '__main__')
    except Exception:
        return False


def abstract_module(source):
    """-> (items, names) in source order (pre-order), or None if the module uses what the item model leaves out"""
    tree = ast.parse(source)
    items, names = [], []
    nameids = {}

    def deco_class(node):
        d = 'none'
        for dec in node.decorator_list:
            if isinstance(dec, ast.Attribute) and dec.attr in ('setter', 'deleter'):
                return dec.attr
            d = 'plain'
        return d

    def walk(body, depth, scope):
        for node in body:
            if isinstance(node, (ast.FunctionDef, ast.AsyncFunctionDef, ast.ClassDef)):
                k = 'class' if isinstance(node, ast.ClassDef) else ('adef' if isinstance(node, ast.AsyncFunctionDef) else 'def')
                deco = deco_class(node) if k != 'class' else 'none'
                nid = nameids.setdefault(node.name, len(nameids) + 1)
                items.append({'k': k, 'depth': depth, 'deco': deco, 'nd': 0, 'sig2': False, 'gap': 0, 'doc': NODOC, 'nm': nid})
                names.append(node.name)
                walk(node.body, depth + 1, node.name)
            elif isinstance(node, ast.If):
                k = 'ifmain' if _is_main_guard(node) else 'iftrue'
                items.append({'k': k, 'depth': depth, 'deco': 'none', 'nd': 0, 'sig2': False, 'gap': 0, 'doc': NODOC, 'nm': 0})
                names.append('<if>')
                walk(node.body, depth + 1, scope)
                if node.orelse and k != 'ifmain':
                    items.append({'k': 'iftrue', 'depth': depth, 'deco': 'none', 'nd': 0, 'sig2': False, 'gap': 0, 'doc': NODOC, 'nm': 0})
                    names.append('<else>')
                    walk(node.orelse, depth + 1, scope)
                elif node.orelse:
                    return False
            elif isinstance(node, (ast.Try, ast.With, ast.AsyncWith, ast.For, ast.AsyncFor, ast.While) + ((ast.TryStar,) if hasattr(ast, 'TryStar') else ())):
                blocks = [node.body] + [h.body for h in getattr(node, 'handlers', [])] + [getattr(node, 'orelse', [])] + [getattr(node, 'finalbody', [])]
                for b in blocks:
                    if b:
                        items.append({'k': 'with', 'depth': depth, 'deco': 'none', 'nd': 0, 'sig2': False, 'gap': 0, 'doc': NODOC, 'nm': 0})
                        names.append('<block>')
                        if walk(b, depth + 1, scope) is False:
                            return False
            elif isinstance(node, ast.Match) if hasattr(ast, 'Match') else False:
                return False
        return True

    if walk(tree.body, 0, None) is False:
        return None
    if any(i['depth'] > 12 for i in items):
        return None
    return items, names


def collect_corpus_phase(out, roots, limit=None):
    from xdoctest import static_analysis
    mods, meta = [], []
    for root in roots:
        for path in sorted(glob.glob(os.path.join(root, '**', '*.py'), recursive=True)):
            try:
                src = open(path, encoding='utf8').read()
                with warnings.catch_warnings():
                    warnings.simplefilter('ignore')
                    a = abstract_module(src)
                    real = static_analysis.parse_static_calldefs(source=src)
            except Exception:
                continue
            if a is None or not a[0]:
                continue
            mods.append({'items': a[0]})
            meta.append((path, a[1], {k for k in real if k != '__doc__'}))
            if limit and len(mods) >= limit:
                break
    if not mods:
        raise common.MachineryError('collector corpus: no module')
    work = common.scratch_dir('xdv-ccorpus')
    p = os.path.join(work, 'mods.json')
    with open(p, 'w') as f:
        json.dump(mods, f)
    cfg = ('INIT TInit\nNEXT TStep\nCONSTANTS\n Items = {}\n ModDocs = {}\n Fillers = {}\n MaxItems = 0\n MinItems = 0\n MaxDepth = 0\n Deviation = {}\n'
           'CHECK_DEADLOCK FALSE\n')
    res = common.run_tlc('CollectTrace', cfg, workers=1, env={'TRACE_FILE': p}, printed=True, timeout=1800, jvm=('-Xss1g',))
    common.tlc_must_pass(res, 'CollectTrace corpus')
    out.add_tlc(res, 'trace:module corpus')
    bad = []
    n = 0
    for raw in common.iter_printed(res):
        m, visit, decl = tlaval.parse_value(raw)
        path, names, real = meta[m - 1]
        items = mods[m - 1]['items']

        def cn(e):
            cls, name, x = e
            nm = names[x - 1]
            return nm if cls == 0 else '%s.%s' % (names[cls - 1], nm)
        v = {cn(e) for e in visit}
        d = {cn(e) for e in decl}
        n += 1
        if v != real:
            bad.append({'file': path, 'what': 'visitor model vs real collector', 'only_model': sorted(v - real), 'only_real': sorted(real - v)})
        elif d != real:
            # duplicate definitions under one name are one entry for the real collector; the declarative inventory counts items
            pass
    if n != len(mods):
        raise common.MachineryError('collector corpus: TLC evaluated %d of %d modules:\n%s' % (n, len(mods), res.stdout[-1500:]))
    out.extra['corpus_modules_validated'] = n
    out.extra['corpus_items_validated'] = sum(len(m['items']) for m in mods)
    out.traces += n
    common.cleanup_scratch()
    return bad
