"""C19 - the dump command emits valid Python holding every doctest statement in order.

spec  : specs/DocParse.tla with alphabet C19_Blocks: programs of the C01
        generator (one-line, expression, comment, multi-line, compound,
        decorated, triple-quoted with unprefixed lines, trailing and block
        directives, 1-2 line wants, prose, blank lines) plus star-import
        statements.  The parts the model computes (source ranges, want ranges,
        order) are what the conversion iterates over; PartsPartition and
        NoStatementSplit say that they hold every source line once, in order.
replay: 1..3 finished docstrings (some force-disabled by their first line) are
        written as functions of one module; runner.doctest_module(path, 'dump')
        (one function per docstring; or two google blocks in ONE function, i.e.
        two doctests of one callable; or a method K.m next to a function K_m,
        names that coincide once dots are replaced) is captured and must
        (a) parse with ast, (b) contain exactly one test function per enabled
        doctest, in collection order, (c) each body, minus the generated
        docstring / import header / want comments, must be the de-prompted
        source lines of that doctest in order without the star-imports, and
        (d) the want lines must appear, in order, as comments.
"""
import ast
import os
import random
import sys
import zlib

from . import common, parselib, modlib

BOUNDS = {'quick': dict(n=3, modules=6000), 'thorough': dict(n=4, modules=40000)}
HEADER = 'from harness.runlib import make_namespace as _mk\nT = []\nglobals().update(_mk(T))\n'
_M = {}


def _expected(case, lines):
    """-> (non-empty body lines and want comments in order, number of want blocks, statements that contain an empty line)"""
    execs, wants, seq, nw, prevlab = [], [], [], 0, None
    by_sid = {}
    for (k, ind, sid), lab, t in zip(case['lines'], case['labels'], lines):
        if lab == 'text':
            continue
        body = t.expandtabs().lstrip(' ') if k != 'raw' else t.expandtabs()
        if lab == 'want':
            wants.append(body.strip())
            seq.append(('# ' + body.strip()).strip())
            nw += prevlab != 'want'
            prevlab = lab
            continue
        prevlab = lab
        if k in ('p1', 'p2'):
            body = body[4:]
        elif k == 'bare':
            body = ''
        if sid and case['blocks'][sid - 1]['shape'] == 'star':
            continue
        execs.append(body.strip())
        if sid:
            by_sid.setdefault(sid, []).append(body.strip())
        if body.strip():
            seq.append(body.strip())
    # an empty line INSIDE a statement (a blank line of a triple-quoted string) is part of what the doctest executes
    holed = [b for b in by_sid.values() if '' in b[1:-1]]
    return seq, nw, holed


def _docstring(chunks):
    """chunks: list of list of lines (already indented 4) -> (quote, text) or None"""
    text = '\n'.join('\n'.join(c) for c in chunks)
    q = '"""' if '"""' not in text else ("'''" if "'''" not in text else None)
    return (q, text) if q else None


def _module_case(args):
    idx, raws = args
    rot = (zlib.crc32(raws[0].encode()) + _M['seed']) % 100003
    cases = [parselib.decode(r) for r in raws]
    if any(c['f11'] or c['err'] != 'none' for c in cases):
        return None
    # layout 0: one function per docstring; 1: the first function holds two google blocks (two doctests of ONE callable);
    # 2: a method K.m and a function K_m (names that collide once dots are replaced)
    layout = (rot // 7) % 3 if len(cases) >= 2 else 0
    rendered = []
    flags = []
    for i, case in enumerate(cases):
        lines = parselib.render(case, rot + i, texts=parselib.PLAIN_TEXTS, extra_indent=4 if (layout == 1 and i < 2) else 0)
        disabled = (rot + i) % 4 == 0
        if disabled:
            pad = '    ' if (layout == 1 and i < 2) else ''
            lines = [pad + '>>> # %s' % ['DISABLE_DOCTEST', 'SCRIPT', 'UNSTABLE', 'FAILING', 'SLOW_DOCTEST'][(rot + i) % 5]] + lines
        has_code = any(p[0] == 'code' for p in case['parts'])
        rendered.append((case, lines, has_code and not disabled))
        flags.append((case, lines, disabled, has_code))
    src = [HEADER]
    exp = []                     # (test function name suffix, expected) in collection order

    def ind(lines, n=4):
        return [(' ' * n + l if l else '') for l in lines]

    if layout == 1:
        (c0, l0, e0), (c1, l1, e1) = rendered[0], rendered[1]
        tag = ['Example:', 'Doctest:', 'Example:'][rot % 3]
        d = _docstring([ind(['Two blocks.', '', tag] + l0 + ['', 'Example:'] + l1)])
        if d is None:
            return None
        src.append('\n\ndef f0():\n    r%s\n%s\n    %s\n    return 0\n' % (d[0], d[1], d[0]))
        # a google block is a doctest even when it holds no code (its test function is then just `...`)
        for (c, l, e), (_, _, dis, code) in zip(rendered[:2], flags[:2]):
            if not dis:
                exp.append(('f0', _expected(c, l) if code else (['...'], 0, [])))
        rest = rendered[2:]
        for i, (c, l, e) in enumerate(rest, 1):
            d = _docstring([ind(l)])
            if d is None:
                return None
            src.append('\n\ndef f%d():\n    r%s\n%s\n    %s\n    return %d\n' % (i, d[0], d[1], d[0], i))
            if e:
                exp.append(('f%d' % i, _expected(c, l)))
    elif layout == 2:
        (c0, l0, e0), (c1, l1, e1) = rendered[0], rendered[1]
        d0, d1 = _docstring([ind(l0, 8)]), _docstring([ind(l1)])
        if d0 is None or d1 is None:
            return None
        klass = '\n\nclass K(object):\n    def m(self):\n        r%s\n%s\n        %s\n        return 0\n' % (d0[0], d0[1], d0[0])
        func = '\n\ndef K_m():\n    r%s\n%s\n    %s\n    return 1\n' % (d1[0], d1[1], d1[0])
        order = [(klass, 'K_m', c0, l0, e0), (func, 'K_m', c1, l1, e1)]
        if rot % 2:
            order.reverse()
        for text, name, c, l, e in order:
            src.append(text)
            if e:
                exp.append((name, _expected(c, l)))
        for i, (c, l, e) in enumerate(rendered[2:], 2):
            d = _docstring([ind(l)])
            if d is None:
                return None
            src.append('\n\ndef f%d():\n    r%s\n%s\n    %s\n    return %d\n' % (i, d[0], d[1], d[0], i))
            if e:
                exp.append(('f%d' % i, _expected(c, l)))
    else:
        for i, (c, l, e) in enumerate(rendered):
            d = _docstring([ind(l)])
            if d is None:
                return None
            src.append('\n\ndef f%d():\n    r%s\n%s\n    %s\n    return %d\n' % (i, d[0], d[1], d[0], i))
            if e:
                exp.append(('f%d' % i, _expected(c, l)))
    modname = 'xdvc19_%d_%d' % (os.getpid(), idx)
    path = os.path.join(_M['dir'], modname + '.py')
    with open(path, 'w') as f:
        f.write(''.join(src))
    try:
        compile(''.join(src), path, 'exec')
    except SyntaxError as ex:
        os.unlink(path)
        raise common.MachineryError('rendered module is not valid Python: %r\n%s' % (ex, ''.join(src)))
    try:
        res = modlib.run_native(path, 'dump', verbose=0)
    finally:
        os.unlink(path)
    bad = []
    out = res.get('stdout', '')
    if 'raised' in res:
        bad.append(('dump_returns', 'text', res['raised']))
    else:
        try:
            tree = ast.parse(out)
        except SyntaxError as ex:
            bad.append(('valid_python', 'parses', repr(ex)[:200]))
            tree = None
        if tree is not None:
            funcs = [n for n in tree.body if isinstance(n, ast.FunctionDef)]
            names = [n.name for n in funcs]
            want_names = ['test_%s_%s' % (modname, k) for k, _ in exp]
            # one test function per enabled doctest, in collection order (how the functions are called is not part of the property)
            if len(names) != len(want_names):
                bad.append(('test_functions', want_names, names))
            else:
                olines = out.split('\n')
                starts = sorted(n.lineno for n in funcs) + [len(olines) + 1]
                for pos, (n, (key, (e_seq, e_nw, e_holed))) in enumerate(zip(funcs, exp)):
                    key = '%s#%d' % (key, pos)
                    nxt = min(x for x in starts if x > n.lineno)
                    body = olines[n.lineno:nxt - 1]      # comments after the last statement belong to the function too
                    body = [l.strip() for l in body]
                    # a generated docstring in front of the statements is an allowed extra
                    first = n.body[0] if n.body else None
                    if isinstance(first, ast.Expr) and isinstance(getattr(first, 'value', None), ast.Constant) and isinstance(first.value.value, str):
                        body = body[first.end_lineno - n.lineno:]
                    seq, nmark = [], 0
                    for l in body:
                        if l == '# doctest want:':
                            nmark += 1
                            continue
                        if l.startswith('from %s import ' % modname):
                            continue
                        if l:
                            seq.append(l)
                    if seq != e_seq:
                        bad.append(('body_lines_and_want_comments[%s]' % key, e_seq, seq))
                    for block in e_holed:
                        if not any(body[a:a + len(block)] == block for a in range(len(body) - len(block) + 1)):
                            bad.append(('statement_with_empty_line[%s]' % key, block, body))
                    if nmark not in (0, e_nw):          # (a marker line in front of each commented want is an allowed extra)
                        bad.append(('want_blocks[%s]' % key, e_nw, nmark))
    info = {'n': len(exp), 'layout': layout}
    if bad:
        info['bad'] = [(f, repr(a), repr(b)) for f, a, b in bad]
        info['text'] = ''.join(src)
        info['dump'] = out
    return info


def run(tier):
    out = common.Outcome('C19', tier)
    parselib.self_check_templates()
    # a triple-quoted string with an empty line inside: that line is part of the statement
    parselib.EXTRA['ml3'] = [["x{k} = p({k}, '''{o}", "", "end{k}''')"]]
    b = BOUNDS[tier]
    out.rule = ('every docstring of <= %d building blocks over C19_Blocks in DocParse.tla (model-checked and replayed through the parser); '
                '%d modules of 1..3 of those docstrings converted by the dump command' % (b['n'], b['modules']))
    res = common.run_tlc('MC_DocParse', parselib.cfg('C19_Blocks', b['n'], parselib.INVS), printed=True, timeout=2400)
    common.tlc_must_pass(res, 'DocParse C19')
    out.add_tlc(res, 'exhaustive:C19_Blocks<=%d' % b['n'])
    if res.violated:
        raise common.MachineryError('spec-level invariant %s violated on the unchanged spec:\n%s' % (res.violated, res.stdout[-3000:]))
    raws = sorted(r for r in common.iter_printed(res) if '"none", FALSE' in r)
    rng = random.Random(common.seed() + 19)
    jobs = [(i, [rng.choice(raws) for _ in range(1 + i % 3)]) for i in range(b['modules'])]
    _M['seed'] = common.seed()
    _M['dir'] = common.scratch_dir('xdv-c19')
    sys.path.insert(0, _M['dir'])
    try:
        infos = [i for i in common.parallel_map(_module_case, jobs, chunk=20) if i is not None]
    finally:
        sys.path.remove(_M['dir'])
    nfun = 0
    for info in infos:
        out.traces += 1
        out.evaluations += 1
        nfun += info['n']
        if 'bad' in info:
            fields = sorted({x[0].split('[')[0] for x in info['bad']})
            out.violation({'kind': 'dump', 'fields': ','.join(fields)}, {'module_source': info['text'], 'dump': info['dump'], 'disagreements': info['bad']})
        elif out.traces % 997 == 0:
            out.sample({'modules': 'one of the dumped modules had %d enabled doctests' % info['n']})
    out.extra['modules_dumped'] = len(infos)
    out.extra['test_functions_expected'] = nfun
    out.nontrivial_count = len(infos)
    common.cleanup_scratch()
    out.assumptions = ['body lines are compared on content (indentation of the generated function and empty lines are ignored)',
                       'the generated `from <module> import <undefined names>` header and the 3-line generated docstring are allowed extras']
    return out.finish()


def replay(path):
    import json
    d = json.load(open(path))['detail']
    print(d['module_source'])
    print('---- dump ----')
    print(d['dump'])
    print('disagreements:', d['disagreements'])
    return 0
