"""Rendering of whole module files whose doctests are DocRun programs, and running them
through the native runner (runner.doctest_module) in process."""
import io
import os
import sys
import textwrap
import warnings

from . import runlib

HEADER = '''\
{moddoc}from harness.runlib import make_namespace as _mk
T = []
globals().update(_mk(T))
'''


def render_module(cases, moddoc=None, style='freeform', kinds=None):
    """cases: list of (prog, wants, rot).  Returns (source, names) with one function per case."""
    out = [HEADER.format(moddoc=('r"""\n%s\n"""\n' % moddoc) if moddoc else '')]
    names = []
    for i, (prog, wants, rot) in enumerate(cases):
        text, _ = runlib.render_program(prog, wants, rot)
        name = 'f%d' % i
        names.append(name)
        kind = (kinds or {}).get(i, 'def')
        body = textwrap.indent(text, '        ' if style == 'google' else '    ')
        if style == 'google':
            doc = "    r'''\n    Summary %d\n\n    Example:\n%s\n    '''" % (i, body)
        else:
            doc = "    r'''\n%s\n    '''" % body
        out.append('\n\ndef %s():\n%s\n    return %d\n' % (name, doc, i))
    return ''.join(out), names


def run_native(modpath, command='all', verbose=0, style='auto', config=None, argv=()):
    """runs runner.doctest_module in process; returns (run_summary or exception, captured stdout, T)"""
    from xdoctest import runner
    old = sys.stdout, sys.stderr
    sink = io.StringIO()
    sys.stdout = sink
    res = {}
    try:
        with warnings.catch_warnings():
            warnings.simplefilter('ignore')
            try:
                res['summary'] = runner.doctest_module(modpath, command=command, argv=list(argv), style=style, verbose=verbose,
                                                       config=dict(config or {}, colored=False))
            except BaseException as ex:
                res['raised'] = type(ex).__name__ + ': ' + str(ex)[:300]
    finally:
        sys.stdout, sys.stderr = old
    res['stdout'] = sink.getvalue()
    modname = os.path.splitext(os.path.basename(modpath))[0]
    m = sys.modules.get(modname)
    res['T'] = list(m.T) if m is not None and hasattr(m, 'T') else None
    sys.modules.pop(modname, None)
    return res
