"""C08 - reported line numbers point at the real lines of the source file.

spec  : specs/Collect.tla.  The file is a sequence of abstract lines computed
        in TLA+ from the item list (blank lines, 0-2 decorators, one- or
        two-line signatures, docstring lines, body, try/except closers), so an
        index in the sequence is a file line number and the GHOST positions
        (opening line of each docstring, first prompt of each doctest) are read
        off directly.  The MODEL is the code's arithmetic: docstring start
        recovered from its end line minus the number of newlines when the
        candidate line starts with an accepted prefix+triple quote, google
        doctest start = tag line + 1, freeform start = lines before the first
        prompt.  Docstring layouts: quotes {triple double, triple single, r, R,
        u prefixes, one-line}, opening alone / sharing the line, closing alone /
        after text / followed by a comment, 0-2 leading prose lines, google
        blocks whose body starts with prose or a blank line (known finding
        F12), 1-2 groups, multi-line statements, 0-2 want lines.
        Invariants: DocOpenIsGhost, StartIsGhost.
replay: the rendered module is collected (static analysis) under each style
        and every doctest is run: CallDefNode.doclineno, DocTest.lineno, the
        file line of every part (lineno + line_offset) and failed_lineno() must
        be the ghost line / the line predicted from the layout (raising
        statement, or first want line for a mismatch).
"""
import contextlib
import io
import os
import sys
import warnings
import zlib

from . import common, collectlib

BOUNDS = {'quick': dict(limit=6000, nlimit=2500), 'thorough': dict(limit=None, nlimit=None)}
STYLES = ('freeform', 'google', 'auto')


def _positions(case, x):
    """file lines (1-based) of the source/want lines of docstring x, per group"""
    pos = {}
    for n, (t, it, a, dt, dg, dj) in enumerate(case['fl'], 1):
        if t == 'doc' and it == x:
            core = dt[5:] if dt.startswith('open+') else dt
            core = core[:-1] if core.endswith('+close#') else core
            core = core[:-6] if core.endswith('+close') else core
            if core in ('src', 'want'):
                pos.setdefault(dg, {}).setdefault(core, []).append(n)
    return pos


def _expected_failure(doc, groups, pos, rot=0):
    """first failing file line of a doctest made of the given groups, or None"""
    for g in groups:
        if g == 2:
            return pos[g]['src'][collectlib.src_fail_index(doc['nsrc'], rot)], collectlib.src_fail_type(doc['nsrc'], rot)
        if doc['nwant'] == 2:
            return pos[g]['want'][0], 'GotWantException'
    return None, None


def _one(raw):
    from xdoctest import core, static_analysis
    case = collectlib.decode(raw)
    rot = (zlib.crc32(raw.encode()) + collectlib._JOB['seed']) % 100003
    lines = collectlib.render(case, rot)
    modname, path = collectlib.write_module(lines, zlib.crc32(raw.encode()))
    bad = []
    known = []
    try:
        try:
            compile('\n'.join(lines) + '\n', path, 'exec')
        except SyntaxError as ex:
            raise common.MachineryError('rendered module is not valid Python: %r\n%s' % (ex, '\n'.join(lines)))
        with warnings.catch_warnings():
            warnings.simplefilter('ignore')
            calldefs = static_analysis.parse_static_calldefs(fpath=path)
            owners = {}
            for e in case['decl']:
                owners[collectlib.callname(case, e)] = e[2]
            if case['moddoc']['kind'] != 'none':
                owners['__doc__'] = 0
            for cn, x in owners.items():
                s = case['summary'][x]
                if s and s[0] and cn in calldefs and calldefs[cn].doclineno != s[0]:
                    bad.append(('doclineno[%s]' % cn, s[0], calldefs[cn].doclineno))
            for style in STYLES:
                with contextlib.redirect_stdout(io.StringIO()):
                    exs = list(core.parse_doctestables(path, style=style, analysis='static'))
                got_ids = sorted((e.callname, e.num) for e in exs)
                exp_ids = sorted(collectlib.expected_examples(case, style))
                if got_ids != exp_ids:
                    bad.append(('examples[%s]' % style, exp_ids, got_ids))
                for e in exs:
                    x = owners.get(e.callname)
                    if x is None:
                        continue
                    doc = case['items'][x - 1]['doc'] if x else case['moddoc']
                    s = case['summary'][x]
                    starts = s[3][style]
                    ghost = starts[e.num] if isinstance(starts, (dict,)) else starts[e.num]
                    f12 = doc['kind'] == 'goog' and style != 'freeform' and doc['inlead'] > 0
                    if e.lineno != ghost:
                        (known if f12 else bad).append(('doctest_start[%s,%s:%d]' % (style, e.callname, e.num), ghost, e.lineno))
                    # parts: the line the part claims to start on must hold its first line
                    e._parse()
                    for p in e._parts:
                        ln = e.lineno + p.line_offset
                        got = lines[ln - 1].strip() if 0 < ln <= len(lines) else '<outside the file>'
                        first = p.orig_lines[0].strip()
                        if first not in got:
                            (known if f12 else bad).append(('part_start[%s,%s:%d]' % (style, e.callname, e.num), first, '%d: %s' % (ln, got)))
                    # run and locate the failure
                    pos = _positions(case, x)
                    groups = sorted(pos) if (style == 'freeform' or doc['kind'] == 'free') else [e.num + 1]
                    if doc['kind'] == 'free':          # groups switched off by a skip word are not part of the doctest
                        groups = [g for g in groups if not ((g == 1 and doc['lead'] > 0 and doc.get('hdr') in ('lead', 'both')) or
                                                            (g == 2 and doc.get('hdr') in ('mid', 'both')))]
                    exp_line, exp_type = _expected_failure(doc, groups, pos, rot)
                    e.mode = 'native'
                    e.config['colored'] = False
                    old = sys.stdout
                    sys.stdout = io.StringIO()
                    try:
                        summ = e.run(verbose=0, on_error='return')
                    finally:
                        sys.stdout = old
                    if exp_line is None:
                        if summ['failed']:
                            bad.append(('verdict[%s,%s:%d]' % (style, e.callname, e.num), 'passes', repr(summ['exc_info'][1])[:120]))
                    else:
                        if not summ['failed']:
                            bad.append(('verdict[%s,%s:%d]' % (style, e.callname, e.num), 'fails with ' + exp_type, 'passed'))
                        else:
                            et = type(summ['exc_info'][1]).__name__
                            if et != exp_type:
                                bad.append(('failure_type[%s,%s:%d]' % (style, e.callname, e.num), exp_type, et))
                            got_line = e.failed_lineno()
                            if got_line != exp_line:
                                (known if f12 else bad).append(('failed_lineno[%s,%s:%d]' % (style, e.callname, e.num),
                                                                '%d: %s' % (exp_line, lines[exp_line - 1].strip()),
                                                                '%s: %s' % (got_line, lines[got_line - 1].strip() if got_line and 0 < got_line <= len(lines) else '?')))
    finally:
        os.unlink(path)
        sys.modules.pop(modname, None)
    info = {'key': str(hash(raw))}
    if bad:
        info.update(bad=[(f, repr(a), repr(b)) for f, a, b in bad], text='\n'.join(lines), items=case['items'])
    elif known:
        info.update(bad=[(f, repr(a), repr(b)) for f, a, b in known], text='\n'.join(lines), items=case['items'], f12=True)
    elif rot % 1501 == 0:
        info['text'] = '\n'.join(lines)
    return info


def sig(info):
    fields = sorted({b[0].split('[')[0] for b in info['bad']})
    return {'kind': 'lineno_replay', 'fields': ','.join(fields), 'google_block_leading_text': bool(info.get('f12'))}


def run(tier):
    out = common.Outcome('C08', tier)
    b = BOUNDS[tier]
    out.rule = ('modules of one documented function (8 header layouts x 3781 docstring layouts) after 0..1 filler items x 3 module docstrings, and of one '
                'documented nested function after a class / if block, in Collect.tla; every doctest of every module collected under three styles and run')
    collectlib.run_space(out, 'C08 top-level', 'C08_ItemsQ' if tier == 'quick' else 'C08_Items', 'C08_ModDocs', 2, _one, sig, limit=b['limit'],
                         fillers='C08_Fill', maxdepth=1)
    # freeform layouts with a group switched off by a skip word: every one of them (they are rare in the sampled main space)
    collectlib.run_space(out, 'C08 skip words', 'C08_HdrMain', 'C08_ModDocs', 1, _one, sig, limit=None, fillers='C08_Fill', maxdepth=1)
    collectlib.run_space(out, 'C08 nested', 'C08_NItems', 'C07_ModDocs', 2, _one, sig, limit=b['nlimit'], fillers='C08_NestFill', maxdepth=1)
    collectlib.deviation_must_fail(out, 'C08_NItems', 'C07_ModDocs', 2, 'OnlyLowerR', fillers='C08_NestFill')
    out.exhaustive = not out.extra.get('replay_sampled', False)
    out.assumptions = ['static analysis (dynamic analysis reports no file positions)',
                       'failing statements: an expression raising on the last line of its group, or a two-line want that cannot match',
                       'non-raw docstrings containing backslash escapes that add or remove newlines are not generated (the start-line recovery counts '
                       'newlines of the evaluated string); see DESIGN.md section 6']
    return out.finish()


def replay(path):
    import json
    d = json.load(open(path))['detail']
    for n, l in enumerate(d['module_source'].split('\n'), 1):
        print('%3d| %s' % (n, l))
    print('disagreements:', d['disagreements'])
    return 0
