"""Rendering of Session.tla modules (doctests with by-construction outcomes) and front-end drivers."""
import io
import json
import os
import subprocess
import sys
import textwrap
import warnings
import zlib

from . import common, tlaval

# the force-disable markers are matched case-insensitively, as a prefix, with any blanks around the '#'
DISABLE_SPELLINGS = ['DISABLE_DOCTEST', 'SCRIPT', 'UNSTABLE', 'FAILING', 'SLOW_DOCTEST', 'disable_doctest', 'Script: needs a display', 'unstable on slow machines',
                     'Failing', 'slow_doctest', ' DISABLE_DOCTEST', 'DISABLED']

PKGS = ['json', 'email', 'xml', 'logging', 'unittest', 'importlib', 'concurrent', 'collections', 'html', 'http', 'urllib', 'wsgiref']

HEADER = 'from harness.runlib import make_namespace as _mk\nT = []\nglobals().update(_mk(T))\nG = 1\n'


def kind_text(kind, i, rot=0):
    """doctest lines (without indentation) of doctest number i (0-based) of the given kind"""
    a, b = i * 10 + 1, i * 10 + 2
    dis = '>>> # %s' % DISABLE_SPELLINGS[(rot + i) % len(DISABLE_SPELLINGS)]
    t = {
        'pass': [">>> x = p(%d, 'o1')" % a, 'o1'],
        'failout': [">>> x = p(%d, 'o1')" % a, 'WRONG'],
        'failexc': [">>> x = p(%d)" % a, ">>> raise ValueError('boom')"],
        'skipall': ['>>> # xdoctest: +SKIP', ">>> x = p(%d, 'o1')" % a, 'o1'],
        'skippart': [">>> x = p(%d, 'o1')  # xdoctest: +SKIP" % a, ">>> y = p(%d, 'o2')" % b, 'o2'],
        'expexc': [">>> x = p(%d)" % a, ">>> raise ValueError('boom')", 'Traceback (most recent call last):', 'ValueError: boom'],
        'comment': ['>>> # only a comment', '>>> # and another one'],
        'disabled': [dis, ">>> x = p(%d, 'o1')" % a, 'o1'],
        'disabledfail': [dis, ">>> x = p(%d, 'o1')" % a, 'WRONG'],
        'failcompile': ['>>> return %d' % a],
        'faildirective': [">>> x = p(%d)  # xdoctest: +REQUIRES(nonsense_condition)" % a],
        'needell': [">>> x = p(%d, 'o1 and more')" % a, 'o1 ...'],
        'bind': ['>>> N = 1', ">>> x = p(%d, 'o1')" % a, 'o1'],
        'probe': [">>> x = p(%d)" % a, ">>> print('N' in dir() or 'N' in globals())", 'False'],
        'rebind': ['>>> G = 5', ">>> x = p(%d)" % a, '>>> print(G)', '5'],
        'readg': ['>>> import sys', ">>> x = p(%d)" % a, '>>> print(G, sys.modules[__name__].G)', '1 1'],
        'leaveskip': [">>> x = p(%d, 'o1')" % a, 'o1', '>>> # xdoctest: +SKIP'],
        'leavereq': [">>> x = p(%d, 'o1')" % a, 'o1', '>>> # xdoctest: +REQUIRES(env:XDV_NOPE==1)'],
        'reportstyle': [">>> x = p(%d, 'o1')" % a, 'o1', '>>> # xdoctest: +REPORT_CDIFF, -REPORT_UDIFF'],
        'trail': [">>> print('b')  # xdoctest: +REQUIRES(env:XDV_E==0)", 'a', 'b', ">>> print('a')  # xdoctest: +REQUIRES(env:XDV_E==1)"],
        'swapout': [['>>> import sys, io', ">>> x = p(%d, 'o1')" % a, 'o1', '>>> sys.stdout = io.StringIO()'],
                    ['>>> import sys, os', ">>> x = p(%d, 'o1')" % a, 'o1', '>>> f = open(os.devnull, "w")', '>>> sys.stdout = f', '>>> f.close()'],
                    ['>>> import sys', ">>> x = p(%d, 'o1')" % a, 'o1', '>>> class W(object):', '...     def write(self, s):', '...         return len(s)',
                     '>>> sys.stdout = W()']][(rot + i) % 3],
        'warns': ['>>> import warnings', ">>> warnings.warn('only a warning %d')" % a, ">>> x = p(%d, 'o1')" % a, 'o1'],
        'filters': ['>>> import warnings', ">>> warnings.simplefilter('error')", ">>> x = p(%d, 'o1')" % a, 'o1'],
        # a requirement on a missing submodule of an existing package (unmet: nothing runs) / on that package (met)
        'reqsub': ['>>> # xdoctest: +REQUIRES(module:%s.xdv_no_such_submodule)' % PKGS[rot % len(PKGS)], ">>> x = p(%d, 'o1')" % a, 'o1'],
        'reqpkg': ['>>> # xdoctest: +REQUIRES(module:%s)' % PKGS[rot % len(PKGS)], ">>> x = p(%d, 'o1')" % a, 'o1'],
        # rebinds the module's global G (1) and wants a value it can only reach if its own earlier binding survived
        # only the FIRST line of a doctest can force-disable it
        'latenote': [">>> x = p(%d, 'o1')" % a, 'o1', '>>> # %s' % DISABLE_SPELLINGS[(rot + i) % len(DISABLE_SPELLINGS)].strip(), ">>> s = '>>> # SCRIPT'"],
        'latenotefail': [">>> x = p(%d, 'o1')" % a, 'WRONG', '>>> # failing inputs are a topic of their own'],
        'bumpfail': ['>>> G = G + 1', '>>> x = p(%d)' % a, '>>> print(G)', '3'],
    }
    return t[kind]


def kind_trace(kind, i, env=1, named=False):
    """the statements (ids) that run when doctest i runs alone"""
    a, b = i * 10 + 1, i * 10 + 2
    if kind in ('skipall', 'comment', 'trail', 'failcompile', 'faildirective', 'reqsub'):
        return []
    if kind == 'skippart':
        return [b]
    return [a]


def kind_stdout(kind, env=1):
    return {'pass': 'o1\n', 'failout': 'o1\n', 'failexc': '', 'failcompile': '', 'faildirective': '', 'skipall': '', 'skippart': 'o2\n', 'expexc': '', 'comment': '', 'disabled': 'o1\n',
            'disabledfail': 'o1\n', 'needell': 'o1 and more\n', 'bind': 'o1\n', 'probe': 'False\n', 'rebind': '5\n', 'readg': '1 1\n',
            'leaveskip': 'o1\n', 'leavereq': 'o1\n', 'reportstyle': 'o1\n', 'trail': 'a\n' if env == 1 else 'b\n', 'swapout': 'o1\n', 'warns': 'o1\n',
            'filters': 'o1\n', 'reqsub': '', 'reqpkg': 'o1\n', 'bumpfail': '2\n', 'latenote': 'o1\n', 'latenotefail': 'o1\n'}[kind]


def render_module(kinds, rot=0, layout='google'):
    out = [HEADER]
    if layout == 'shared':
        # every doctest of the module is an example block of ONE docstring: g:0, g:1, ... (google / auto style)
        body = ['Summary of g', '']
        for i, k in enumerate(kinds):
            body += [['Example:', 'Doctest:', 'Example::', 'Examples:'][(rot + i) % 4]] + ['    ' + l for l in kind_text(k, i, rot)] + ['']
        doc = '\n'.join('    ' + l if l else '' for l in body)
        out.append("\n\ndef g():\n    r'''\n%s\n    '''\n    return 0\n" % doc)
        return ''.join(out)
    for i, k in enumerate(kinds):
        lines = kind_text(k, i, rot)
        if layout == 'google':
            body = ['Summary %d' % i, '', ['Example:', 'Doctest:', 'Example::', 'Examples:'][(rot + i) % 4]] + ['    ' + l for l in lines]
        else:
            body = ['Summary %d' % i, ''] + lines
        doc = '\n'.join('    ' + l if l else '' for l in body)
        out.append("\n\ndef f%d():\n    r'''\n%s\n    '''\n    return %d\n" % (i, doc, i))
    return ''.join(out)


def decode(raw):
    mod, opt, cmd, front, hist, verdict, tallies, failed, exitcode, listed = tlaval.parse_value(raw)
    if isinstance(verdict, dict):
        v = {int(k): o for k, o in verdict.items()}
    else:
        v = {i + 1: o for i, o in enumerate(verdict)}
    return {'mod': list(mod), 'opt': opt, 'cmd': dict(cmd), 'front': front, 'hist': [tuple(h) for h in hist], 'verdict': v,
            'tallies': tuple(tallies), 'failed': list(failed), 'exit': exitcode, 'listed': sorted(listed)}


def cfg(kinds, maxdocs, invariants, commands=('all',), fronts=('native',), maxhist=0, mindocs=0, deviation=('Emit',), opts=('none',)):
    lines = ['SPECIFICATION Spec', 'CONSTANTS', ' Kinds = {%s}' % ', '.join('"%s"' % k for k in kinds), ' MaxDocs = %d' % maxdocs, ' MinDocs = %d' % mindocs,
             ' Commands = {%s}' % ', '.join('"%s"' % c for c in commands), ' Fronts = {%s}' % ', '.join('"%s"' % f for f in fronts),
             ' Opts = {%s}' % ', '.join('"%s"' % o for o in opts), ' MaxHist = %d' % maxhist, ' Deviation = {%s}' % ', '.join('"%s"' % d for d in deviation)]
    lines += ['INVARIANT %s' % i for i in invariants]
    lines += ['CHECK_DEADLOCK FALSE', '']
    return '\n'.join(lines)


INVS = ['RunSetRight', 'TalliesAddUp', 'ExitIffFailed', 'ListNamesAll', 'PytestVerdicts', 'Isolation', 'ModuleGlobalsKept', 'DefaultsKept']


def run_tlc_cases(out, label, **kw):
    res = common.run_tlc('Session', cfg(invariants=INVS, **kw), printed=True, timeout=2400)
    common.tlc_must_pass(res, 'Session ' + label)
    out.add_tlc(res, 'exhaustive:' + label)
    if res.violated:
        raise common.MachineryError('spec-level invariant %s violated on the unchanged spec (%s):\n%s' % (res.violated, label, res.stdout[-3000:]))
    raws = sorted(common.iter_printed(res))
    return raws


def deviation_must_fail(out, deviation, **kw):
    kw = dict(kw)
    kw['deviation'] = (deviation,)
    res = common.run_tlc('Session', cfg(invariants=INVS, **kw), timeout=900)
    common.cleanup_scratch()
    if not res.violated:
        raise common.MachineryError('vacuity control: deviation %s does not violate any invariant' % deviation)
    out.extra.setdefault('deviations_rejected', {})[deviation] = res.violated


class Env:
    def __init__(self, e=1):
        self.e = e

    def __enter__(self):
        self.old = dict(os.environ)
        self.argv = list(sys.argv)
        os.environ['XDV_E'] = str(self.e)
        os.environ.pop('XDV_NOPE', None)
        sys.argv = ['xdv-harness']
        return self

    def __exit__(self, *a):
        os.environ.clear()
        os.environ.update(self.old)
        sys.argv = self.argv
