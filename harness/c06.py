"""C06 - ellipsis is a true wildcard.

spec  : specs/Match.tla (Mode="ellipsis"): EllipsisGreedy (the code's scan) vs
        EllipsisDecl (exists-placement), for every got x every dotted want.
replay: every (got, want) of the enumerated space is run through the real
        checker._ellipsis_match and checker.check_output (+/-ELLIPSIS) and must
        equal the row TLC computed.
trace : random longer pairs derived from each other by inserting '...' are run
        through the real code and validated by specs/MatchTrace.tla.
"""
import json
import random

from . import common, matchlib, tlaval

BOUNDS = {
    # alphabet, MaxGot, MaxWant, number of random longer pairs
    'quick': (['A', 'B', 'SP', 'DOT', 'ELL'], 3, 5, 4000),
    'thorough': (['A', 'B', 'SP', 'NL', 'DOT', 'ELL'], 4, 5, 60000),
}

_WANTS = None


def _row(args):
    got = args
    g = matchlib.to_str(got)
    rs_on = matchlib.runstate({'ELLIPSIS'})
    rs_off = matchlib.runstate(set())
    greedy, on, off = set(), set(), set()
    for w, ws in _WANTS:
        if matchlib.impl_ellipsis(g, ws):
            greedy.add(w)
        if matchlib.impl_check_output(g, ws, rs_on):
            on.add(w)
        if matchlib.impl_check_output(g, ws, rs_off):
            off.add(w)
    return got, greedy, on, off


def run(tier):
    global _WANTS
    out = common.Outcome('C06', tier)
    alphabet, maxgot, maxwant, nrand = BOUNDS[tier]
    out.rule = ('exhaustive: every got in Texts(%d) x every want in Texts(%d) over %s whose text contains "..."; '
                'a case is one (got, want) pair, all are non-trivial (the want has a wildcard); '
                'random: seeded longer pairs derived by replacing substrings with "..." and perturbing' % (maxgot, maxwant, alphabet))
    res = common.run_tlc('Match', matchlib.cfg(alphabet, maxgot, maxwant, 'ellipsis', ['GreedyIsDecl', 'EllipsisOffLiteral']),
                         dump=True, timeout=3000)
    common.tlc_must_pass(res, 'Match ellipsis')
    out.add_tlc(res, 'exhaustive')
    if res.violated:
        # the specification's own two formulations disagree: design-level counterexample
        raise common.MachineryError('spec-level invariant %s violated on the unchanged spec:\n%s' % (res.violated, res.stdout[-3000:]))
    rows = {}
    for st in tlaval.iter_dump_states(res.dump):
        if st['phase'] == 'done':
            rows[tuple(st['got'])] = st['row']
    gots = list(matchlib.texts(alphabet, maxgot))
    if set(gots) != set(rows):
        raise common.MachineryError('dump does not contain one row per got (%d vs %d)' % (len(rows), len(gots)))
    _WANTS = [(w, matchlib.to_str(w)) for w in matchlib.texts(alphabet, maxwant) if matchlib.has_ell(w)]
    impl = common.parallel_map(_row, gots, chunk=8)
    n_match = 0
    for got, greedy, on, off in impl:
        spec = rows[got]
        for kind, have in (('greedy', greedy), ('on', on), ('off', off)):
            want_set = set(tuple(w) for w in spec[kind])
            if kind == 'greedy':
                n_match += len(want_set)
            if have != want_set:
                for w in sorted(have ^ want_set)[:3]:
                    out.violation({'kind': 'ellipsis_' + kind},
                                  {'got': matchlib.to_str(got), 'want': matchlib.to_str(w), 'call': kind,
                                   'impl': w in have, 'spec': w in want_set,
                                   'explanation': 'implementation result differs from the row computed by TLC from Match.tla'})
    out.traces += len(gots)
    out.evaluations += 3 * len(gots) * len(_WANTS)
    out.nontrivial_count += len(gots) * len(_WANTS)
    out.exhaustive = True
    out.extra['exhaustive_pairs'] = len(gots) * len(_WANTS)
    out.extra['matching_pairs'] = n_match
    out.sample({'got': 'ab', 'want': 'a...b...b', 'impl_ellipsis_match': matchlib.impl_ellipsis('ab', 'a...b...b')})
    for got, greedy, on, off in impl[-40::13]:
        out.sample({'got': matchlib.to_str(got), 'wants_matching_greedy': sorted(matchlib.to_str(w) for w in greedy)[:6]})

    # code -> spec: random longer pairs
    rng = random.Random(common.seed() * 7919 + 6)
    pairs = matchlib.derive_pairs(rng, alphabet + ['NL'], nrand)
    events = []
    ntrue = 0
    for g, w in pairs:
        gs, ws = matchlib.to_str(g), matchlib.to_str(w)
        r = matchlib.impl_ellipsis(gs, ws)
        ntrue += r
        events.append({'k': 'ellipsis', 'got': list(g), 'want': list(w), 'flags': [], 'res': r})
        for fl in ([], ['ELLIPSIS']):
            events.append({'k': 'check_output', 'got': list(g), 'want': list(w), 'flags': fl,
                           'res': matchlib.impl_check_output(gs, ws, matchlib.runstate(set(fl)))})
    # long texts with 9..14 wildcards
    longs = matchlib.derive_long_pairs(rng, 120 if tier == 'quick' else 1500)
    for g, w in longs:
        gs, ws = matchlib.to_str(g), matchlib.to_str(w)
        events.append({'k': 'ellipsis', 'got': list(g), 'want': list(w), 'flags': [], 'res': matchlib.impl_ellipsis(gs, ws)})
        events.append({'k': 'check_output', 'got': list(g), 'want': list(w), 'flags': ['ELLIPSIS'],
                       'res': matchlib.impl_check_output(gs, ws, matchlib.runstate({'ELLIPSIS'}))})
    out.extra['long_pairs'] = len(longs)
    bad = matchlib.validate_trace(events, out, 'random-longer')
    for e in bad[:10]:
        out.violation({'kind': 'trace_' + e['k']},
                      {'got': matchlib.to_str(e['got']), 'want': matchlib.to_str(e['want']), 'flags': e['flags'],
                       'impl': e['res'], 'explanation': 'recorded call is not a behaviour of MatchTrace.tla'})
    out.traces += len(events)
    out.evaluations += len(events)
    out.nontrivial_count += len(set(pairs))
    out.extra['random_pairs'] = len(pairs)
    out.extra['random_pairs_matching'] = ntrue
    out.sample({'random_pair': {'got': matchlib.to_str(pairs[0][0]), 'want': matchlib.to_str(pairs[0][1])}})
    out.assumptions = ['texts are built from the token alphabet of Match.tla; "..." also appears as three single dots',
                       'TLC evaluates the transcription in Match.tla; its agreement with the code is what the replay checks']
    return out.finish()


def replay(path):
    d = json.load(open(path))['detail']
    g, w = d['got'], d['want']
    print('got=%r want=%r' % (g, w))
    print('_ellipsis_match ->', matchlib.impl_ellipsis(g, w))
    print('check_output(+ELLIPSIS) ->', matchlib.impl_check_output(g, w, matchlib.runstate({'ELLIPSIS'})))
    print('check_output(-ELLIPSIS) ->', matchlib.impl_check_output(g, w, matchlib.runstate(set())))
    print('recorded: impl=%s spec=%s' % (d.get('impl'), d.get('spec')))
    return 0
