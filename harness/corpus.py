"""Code -> spec for the labeller on real docstrings (corpus conformance, used by C13).

Every docstring of the repository's sources and tests is abstracted line by line into the attributes the labeller reads
and labelled by the real parser; specs/DocParseTrace.tla (the Feed action of DocParse.tla driven by the recorded lines)
must produce the same label for every line and the same error class.
"""
import ast
import glob
import json
import os
import re
import warnings

from . import common, tlaval


def iter_docstrings(root):
    for path in sorted(glob.glob(os.path.join(root, '**', '*.py'), recursive=True)):
        try:
            tree = ast.parse(open(path, encoding='utf8').read())
        except Exception:
            continue
        for node in ast.walk(tree):
            if isinstance(node, (ast.Module, ast.FunctionDef, ast.AsyncFunctionDef, ast.ClassDef)):
                d = ast.get_docstring(node, clean=False)
                if d and '>>>' in d:
                    yield path, getattr(node, 'name', '<module>'), d


def abstract(docstr):
    """-> (line records, real labels, error class) or None when the text uses what the line model leaves out"""
    from xdoctest import parser, exceptions
    from xdoctest import static_analysis as static
    s = docstr.expandtabs()
    mi = parser._min_indentation(s)
    if mi > 0:
        s = '\n'.join([ln[mi:] for ln in s.splitlines()])
    lines = s.splitlines()
    err = 'none'
    try:
        with warnings.catch_warnings():
            warnings.simplefilter('ignore')
            labeled = parser.DoctestParser()._label_docsrc_lines(s)
        real = [lab for lab, _ in labeled]
    except exceptions.IncompleteParseError:
        real, err = [], 'incomplete'
    except SyntaxError:
        real, err = [], 'badindent'
    except Exception:
        return None
    recs = []
    for j, line in enumerate(lines):
        strip = line.strip()
        ind = len(line) - len(line.lstrip(' '))
        if not strip:
            k = 'blank'
        elif strip == '>>>' or strip.startswith('>>> '):
            k = 'p1'
        elif strip == '...':
            k = 'bare'
        elif strip.startswith('... '):
            k = 'p2'
        else:
            k = 'text'
        cont, tq = 0, False
        if k in ('p1', 'p2', 'bare'):
            # how many following lines the completion pulls in when a statement starts on this line
            parts = [line[ind:][4:]]
            n = j
            try:
                while not static.is_balanced_statement(parts, only_tokens=True):
                    n += 1
                    if n >= len(lines):
                        cont = 99
                        break
                    nxt = lines[n][ind:]
                    pre = nxt[:4]
                    if pre.strip() not in ('>>>', '...', ''):
                        nxt = '... ' + nxt
                    parts.append(nxt[4:])
                else:
                    cont = n - j
            except Exception:
                return None
            tq = any("'''" in p or '"""' in p for p in parts[:1]) or any("'''" in p or '"""' in p for p in parts)
        recs.append({'k': k, 'ind': ind, 'sid': 0, 'cont': cont, 'tq': bool(tq), 'first': False, 'expr': False, 'semi': False, 'cmt': False, 'ndir': 0, 'bad': False})
    # unprefixed lines inside a completion are "raw" for the model
    return recs, real, err


def corpus_phase(out, roots):
    docs, names = [], []
    skipped = 0
    for root in roots:
        for path, name, d in iter_docstrings(root):
            a = abstract(d)
            if a is None:
                skipped += 1
                continue
            recs, real, err = a
            docs.append({'lines': recs, 'labels': real, 'err': err})
            names.append((path, name, d))
    if not docs:
        raise common.MachineryError('corpus: no docstring found')
    work = common.scratch_dir('xdv-corpus')
    path = os.path.join(work, 'docs.json')
    with open(path, 'w') as f:
        json.dump(docs, f)
    cfg = 'INIT TInit\nNEXT TNext\nCONSTANTS\n Blocks = {}\n MaxBlocks = 0\n MinBlocks = 0\n Deviation = {}\nCHECK_DEADLOCK FALSE\n'
    res = common.run_tlc('DocParseTrace', cfg, workers=1, env={'TRACE_FILE': path}, printed=True, timeout=1800)
    common.tlc_must_pass(res, 'DocParseTrace corpus')
    out.add_tlc(res, 'trace:docstring corpus')
    raws = list(common.iter_printed(res))
    if len(raws) != 1:
        raise common.MachineryError('corpus: TLC did not reach the end of the corpus:\n%s' % res.stdout[-2000:])
    bad = tlaval.parse_value(raws[0])
    out.extra['corpus_docstrings_validated'] = len(docs)
    out.extra['corpus_lines_validated'] = sum(len(d['lines']) for d in docs)
    out.extra['corpus_docstrings_outside_the_line_model'] = skipped
    out.traces += len(docs)
    result = []
    for (d, line, lab) in sorted(bad):
        p, name, text = names[d - 1]
        result.append({'file': p, 'name': name, 'line': line, 'label_by_spec': lab,
                       'real_labels': docs[d - 1]['labels'], 'real_err': docs[d - 1]['err'], 'docstring': text})
    common.cleanup_scratch()
    return result
