# Loaded by child interpreters (PYTHONPATH) while traces are being recorded: installs the probe lazily when
# the xdoctest package has been imported (its __init__ imports every submodule the probe wraps).  Does nothing unless
# XDOCTEST_VERIF_TRACE is set.
import os
import sys

if os.environ.get('XDOCTEST_VERIF_TRACE'):
    import importlib.abc
    import importlib.util

    class _Hook(importlib.abc.MetaPathFinder):
        busy = False

        def find_spec(self, name, path, target=None):
            if name != 'xdoctest' or _Hook.busy:
                return None
            _Hook.busy = True
            try:
                spec = importlib.util.find_spec(name)
            finally:
                _Hook.busy = False
            if spec is None or spec.loader is None:
                return None
            loader = spec.loader
            orig_exec = loader.exec_module

            def exec_module(module):
                orig_exec(module)
                try:
                    sys.meta_path.remove(hook)
                except ValueError:
                    pass
                import harness.probe as probe
                probe.install()
            loader.exec_module = exec_module
            return spec

    hook = _Hook()
    sys.meta_path.insert(0, hook)
