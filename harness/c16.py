"""C16 - static and dynamic analysis find the same doctests.

spec  : specs/Collect.tla with alphabet C16_Items: importable modules whose
        definitions are all executed at import (functions, async functions,
        classes, static/class methods, properties with setters, decorators
        plain and functools.wraps-based, definitions inside if True / try /
        with blocks, definitions under the main guard and inside functions that
        neither collector may report, an imported name that must be ignored).
        VisitIsDecl: the static visitor equals the declarative inventory, which
        for these modules is also what exists in the module and class
        dictionaries after import.
replay: each module is rendered, then collected with analysis='static' and
        analysis='dynamic' under each style: the sorted (identifier, doctest
        source) lists must be equal to each other and the identifiers must be
        the predicted ones.
"""
import os
import sys
import warnings
import zlib

from . import common, collectlib

BOUNDS = {'quick': dict(n=3, limit=12000), 'thorough': dict(n=3, limit=None, core=4, corelimit=150000)}
STYLES = ('freeform', 'google', 'auto')


def _one(raw):
    from xdoctest import core
    case = collectlib.decode(raw)
    rot = (zlib.crc32(raw.encode()) + collectlib._JOB['seed']) % 100003
    lines = collectlib.render(case, rot)
    modname, path = collectlib.write_module(lines, zlib.crc32(raw.encode()))
    bad = []
    try:
        with warnings.catch_warnings():
            warnings.simplefilter('ignore')
            for style in STYLES[rot % 3:] + STYLES[:rot % 3]:
                res = {}
                for analysis in ('static', 'dynamic'):
                    try:
                        exs = list(core.parse_doctestables(path, style=style, analysis=analysis))
                    except Exception as ex:
                        bad.append(('collection[%s,%s]' % (style, analysis), 'examples', 'raised %r' % (ex,)))
                        continue
                    res[analysis] = sorted((e.unique_callname, e.docsrc) for e in exs)
                if len(res) == 2:
                    if res['static'] != res['dynamic']:
                        bad.append(('static_vs_dynamic[%s]' % style, [r[0] for r in res['static']], [r[0] for r in res['dynamic']]))
                        if [r[0] for r in res['static']] == [r[0] for r in res['dynamic']]:
                            bad.append(('docsrc[%s]' % style, res['static'], res['dynamic']))
                    exp = sorted('%s:%d' % t for t in collectlib.expected_examples(case, style))
                    if [r[0] for r in res['static']] != exp:
                        bad.append(('static_vs_spec[%s]' % style, exp, [r[0] for r in res['static']]))
    finally:
        os.unlink(path)
        sys.modules.pop(modname, None)
    info = {'key': str(hash(raw))}
    if bad:
        info.update(bad=[(f, repr(a), repr(b)) for f, a, b in bad], text='\n'.join(lines), items=case['items'])
    elif rot % 1501 == 0:
        info['text'] = '\n'.join(lines)
    return info


def sig(info):
    return {'kind': 'analysis_replay', 'fields': ','.join(sorted({b[0].split('[')[0] for b in info['bad']}))}


def run(tier):
    out = common.Outcome('C16', tier)
    b = BOUNDS[tier]
    out.rule = ('every importable module of <= %d items (depth <= 2) over C16_Items x 2 module docstrings in Collect.tla; static and dynamic '
                'collection under three styles (sampled where stated)' % b['n'])
    collectlib.run_space(out, 'C16_Items<=%d' % b['n'], 'C16_Items', 'C07_ModDocs', b['n'], _one, sig, limit=b['limit'], timeout=3600)
    # definitions inside except / else / finally / case / if-else / for-else clauses and for bodies (all executed at import)
    collectlib.run_space(out, 'C16 clauses', 'Clause_Items', 'C07_ModDocs', 3, _one, sig, limit=b['limit'] or 60000, timeout=3600)
    if b.get('core'):
        # longer modules over the core alphabet (21 item kinds)
        collectlib.run_space(out, 'C16_Core<=%d' % b['core'], 'C16_Core', 'C07_ModDocs', b['core'], _one, sig, limit=b['corelimit'], timeout=5400)
    out.exhaustive = not out.extra.get('replay_sampled', False)
    out.assumptions = ['premise of the property: ordinary def/class statements executed at import; no aliases, no differently named setters, no dead branches',
                       'module docstring: compared as every other docstring']
    return out.finish()


def replay(path):
    import json
    d = json.load(open(path))['detail']
    print(d['module_source'])
    print('disagreements:', d['disagreements'])
    return 0
