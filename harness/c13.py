"""C13 - parsing partitions the docstring: each line is text, source or want, once.

spec  : specs/DocParse.tla.  Docstrings are sequences of building blocks
        (statements of 11 shapes x prompt styles {'>>>' everywhere, '...'
        continuation, continuation + bare '...' terminator, unprefixed string
        lines}, text of 1..2 lines, blank lines, bare '...', '... text') at two
        indentation levels.  Operational model: the labeller's 4-state machine
        with state_indent and statement completion, the three grouping passes
        and the packaging (PS1 lines, directive breaks, final-expression split,
        compile modes), line by line.  Declarative model: Decl, written from the
        property sentence.  Invariants: LabelsAreDecl, PartsPartition,
        LabelsMatchParts, NoStatementSplit, EvalPartsSingleStatement.
replay: every docstring TLC finished is rendered from the abstract line list
        and parsed by the real DoctestParser: labels per line, the parts (kind,
        line_offset, number of source/want lines, compile mode, directives) and
        the error class must equal the specification's, and the parts joined
        back must reproduce the de-indented docstring line for line; a fifth of
        the cases is also parsed tab-indented / with extra common indentation.
trace : corpus conformance (specs/DocParseTrace.tla): every docstring with a
        prompt in the repository's sources and tests (thorough: also the
        standard library and site-packages, 1 305 docstrings / 31 909 lines) is
        abstracted line by line and labelled by the real parser; the Feed
        action driven by those lines must give every line the same label and
        end in the same error class.
"""
import os

from . import common, parselib

BOUNDS = {'quick': [('C13_Blocks', 3, None)], 'thorough': [('C13_Blocks', 3, None), ('C13_Core', 5, 400000)]}


def sig(info):
    fields = sorted({b[0].split('.')[0].split('(')[0].rstrip('0123456789') for b in info['bad']})
    return {'kind': 'parse_replay', 'fields': ','.join(fields), 'prompt_indent_change_after_source': bool(info['f11'])}


def run(tier):
    out = common.Outcome('C13', tier)
    parselib.self_check_templates()
    # an empty prompt line ('>>>' alone, the spacer idiom) stands for a comment-only line where another prompt line or nothing follows
    parselib.EXTRA['cmt'] = [[""]]
    out.rule = 'every docstring of <= N building blocks over the named alphabet of MC_DocParse.tla; one case per finished docstring; distinct by block sequence'
    for blocks, n, limit in BOUNDS[tier]:
        parselib.run_space(out, '%s<=%d' % (blocks, n), blocks, n, sig, limit=limit)
    for dev in ('WantOnlyEndsAtBlank', 'NoTripleQuoteHack'):
        parselib.deviation_must_fail(out, 'C13_Blocks', 3, dev)
    # code -> spec on real docstrings: the Feed action must reproduce the real labelling of every docstring of the corpus
    from . import corpus
    roots = [common.SRC, os.path.join(common.REPO, 'tests')]
    if tier == 'thorough':
        import sysconfig
        roots += [sysconfig.get_paths()['stdlib'], sysconfig.get_paths()['purelib']]
    for r in corpus.corpus_phase(out, roots):
        out.violation({'kind': 'corpus_labelling'}, {'file': r['file'], 'name': r['name'], 'first_disagreeing_line': r['line'],
                                                       'label_by_the_specification': r['label_by_spec'], 'real_labels': r['real_labels'],
                                                       'real_error': r['real_err'], 'text': r['docstring']})
    out.exhaustive = not out.extra.get('replay_sampled', False)
    out.assumptions = ['lines are instances of the templates of harness/parselib.py (checked against Python\'s tokenizer/ast at start)',
                       '"reproduce line for line" is compared on line content: per-chunk de-indentation and the "... " put in front of unprefixed string lines are allowed']
    return out.finish()


def replay(path):
    import json
    d = json.load(open(path))['detail']
    print(d['text'])
    print('specification:', d['case'])
    print('disagreements:', d['disagreements'])
    return 0
