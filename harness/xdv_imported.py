"""Helper imported by generated modules: a callable WITH a doctest that collectors must not attribute to the importing module."""


def imported_func(x=1):
    """
    Example:
        >>> imported_func(2)
        3
    """
    return x + 1


class ImportedClass(object):
    """
    >>> ImportedClass().m()
    1
    """

    def m(self):
        """
        >>> 1 + 1
        2
        """
        return 1
