"""Helper imported by generated modules: a callable WITH a doctest that collectors must not attribute to the importing module."""


import functools


def foreign_wraps(f):
    """a functools.wraps-style decorator that lives in ANOTHER module than the functions it decorates (no doctest here)"""
    @functools.wraps(f)
    def wrapper(*a, **k):
        return f(*a, **k)
    return wrapper


def imported_func(x=1):
    """
    Example:
        >>> imported_func(2)
        3
    """
    return x + 1


class ImportedClass(object):
    """
    >>> ImportedClass().m()
    1
    """

    def m(self):
        """
        >>> 1 + 1
        2
        """
        return 1
