"""Directive comments: specs/Directive.tla (option syntax, recognition of the comment, REQUIRES conditions, effect on
the runtime state) model-checked and replayed into directive.Directive.extract, directive._is_requires_satisfied and
DocTest.run.  Used by harness/c04.py (directive scoping) - the layer below the scoping rules of DocRun.tla."""
import io
import os
import platform
import sys
import warnings
import zlib

from . import common, tlaval

INVS = ['SplitIsDecl', 'ConditionsAreDecl', 'ReqMonotone']
_J = {}


def cfg(atoms, seps, prefixes, places, maxatoms, deviation=('Emit',)):
    return '\n'.join(['SPECIFICATION Spec', 'CONSTANTS', ' Atoms <- %s' % atoms, ' Seps <- %s' % seps, ' Prefixes <- %s' % prefixes, ' Places <- %s' % places,
                      ' MaxAtoms = %d' % maxatoms, ' World <- TheWorld', ' Deviation = {%s}' % ', '.join('"%s"' % d for d in deviation)]
                     + ['INVARIANT %s' % i for i in INVS] + ['CHECK_DEADLOCK FALSE', ''])


def world():
    """spelling of the platform-dependent condition ids on this interpreter (checked against the tag lists of the code's documentation)"""
    plat = [t for t in ('win32', 'linux', 'darwin', 'aix', 'freebsd') if sys.platform.lower().startswith(t)]
    if not plat or os.name not in ('posix', 'nt') or platform.python_implementation().lower() not in ('cpython', 'pypy') or sys.version_info[0] != 3:
        raise common.MachineryError('this interpreter is outside the platform tags the condition alphabet knows')
    here = plat[0]
    impl = platform.python_implementation().lower()
    return {'here': here, 'HERE': here.upper(), 'elsewhere': 'win32' if here != 'win32' else 'linux',
            'posixname': os.name, 'nt': 'nt' if os.name != 'nt' else 'posix',
            'cpython': impl, 'CPython': {'cpython': 'CPython', 'pypy': 'PyPy'}[impl], 'pypy': 'pypy' if impl != 'pypy' else 'cpython'}


ARGV = ['prog', '--xdvon']
ENVIRON = {'SET': 'v', 'EMPTY': ''}


def spell(c):
    return _J['world'].get(c, c)


def render_atom(a, rot):
    sp = ' ' if a['sp'] else ''
    s = a['sign'] + (sp if a['sign'] else '') + a['name']
    if a['args']:
        joiner = (' , ' if rot % 2 else ' ,') if a['sp'] else ','
        s += '(' + sp + joiner.join(spell(c) for c in a['args']) + sp + ')'
    return s


def render_opts(atoms, seps, rot):
    out = render_atom(atoms[0], rot)
    for n, (s, a) in enumerate(zip(seps, atoms[1:])):
        sep = {',': ',', ', ': [', ', ',  ', ',\t'][(rot + n) % 3], ' ': [' ', '   '][(rot + n) % 2]}[s]
        out += sep + render_atom(a, rot + n + 1)
    return out


def render_doctest(comment, place, rot, nforms=2):
    """-> (docstring text, text handed to Directive.extract, index of the statement the directive stands at)"""
    if place == 'own':
        return '>>> %s\n>>> x = p(1)\n>>> y = p(2)\n' % comment, comment
    if place == 'trailing':
        return '>>> x = p(1)  %s\n>>> y = p(2)\n' % comment, 'x = p(1)  %s' % comment
    if place == 'continuation':
        forms = ['>>> x = p(1,\n...       None)  %s\n>>> y = p(2)\n' % comment, '>>> x = p(1,  %s\n...       None)\n>>> y = p(2)\n' % comment]
        text = forms[rot % 2]
        src = '\n'.join(l[4:] for l in text.split('\n')[:2])
        return text, src
    if place == 'afterblank':
        # the statement holds an EMPTY source line (a bare '...' line) and the comment stands on a later line of it
        forms = ['>>> for _i in [0]:\n...     x = p(1)\n...\n...     z = 0  %s\n>>> y = p(2)\n' % comment,
                 ">>> x = p(1, len('''a\n...\n... b'''))  %s\n>>> y = p(2)\n" % comment,
                 '>>> if True:\n...\n...     x = p(1)  %s\n>>> y = p(2)\n' % comment]
        # (the third form - a bare line directly under the header - is not collected at all, finding F25: used where the standard
        # module is the judge, C20, only)
        text = forms[rot % nforms]
        n = [4, 3, 3][rot % nforms]
        src = '\n'.join(l[4:] for l in text.split('\n')[:n])
        return text, src
    if place == 'instring':
        forms = [">>> s = '%s'\n>>> x = p(1)\n>>> y = p(2)\n" % comment, '>>> s = """\n... %s\n... """\n>>> x = p(1)\n>>> y = p(2)\n' % comment]
        text = forms[rot % 2]
        n = 1 if rot % 2 == 0 else 3
        src = '\n'.join(l[4:] for l in text.split('\n')[:n])
        return text, src
    raise KeyError(place)


def _one(raw):
    from xdoctest import directive, doctest_example
    from . import runlib
    atoms, seps, pfx, place, recognised, inline, ds, err, st, runs_after = tlaval.parse_value(raw)
    atoms = [dict(a) for a in atoms]
    for a in atoms:
        a['args'] = list(a['args'])
    rot = (zlib.crc32(raw.encode()) + _J['seed']) % 100003
    comment = '# ' + pfx + render_opts(atoms, list(seps), rot)
    text, src = render_doctest(comment, place, rot)
    bad = []
    old_argv, old_env = sys.argv, dict(os.environ)
    sys.argv = list(ARGV)
    for k in ('SET', 'EMPTY', 'UNSET'):
        os.environ.pop(k, None)
    os.environ.update(ENVIRON)
    try:
        # (a) the comment as directives
        exp_ds = [(d['name'], bool(d['pos']), [spell(c) for c in d['args']], bool(inline)) for d in ds] if recognised else []
        with warnings.catch_warnings():
            warnings.simplefilter('ignore')
            try:
                got_ds = [(d.name, bool(d.positive), list(d.args), bool(d.inline)) for d in directive.Directive.extract(src)]
            except Exception as ex:
                got_ds = 'raised %r' % (ex,)
        if got_ds != exp_ds:
            bad.append(('extract', exp_ds, got_ds))
        # (b) the doctest: x stands under the directive, y follows it
        T = []
        with warnings.catch_warnings():
            warnings.simplefilter('ignore')
            dt = doctest_example.DocTest(text, callname='case', mode='native')
            dt.config['colored'] = False
            dt.global_namespace.update(runlib.make_namespace(T))
            old = sys.stdout
            sys.stdout = io.StringIO()
            try:
                summ = dt.run(verbose=0, on_error='return')
                res = 'failed' if summ['failed'] else 'passed' if summ['passed'] else 'skipped'
                exc = type(summ['exc_info'][1]).__name__ if summ['exc_info'] else None
            except BaseException as ex:
                res, exc = 'raised', type(ex).__name__
            finally:
                sys.stdout = old
        if not recognised:
            exp_T, exp_res = [1, 2], 'passed'
        elif err:
            exp_T, exp_res = [], 'failed'        # the directives of a part are applied before its code runs
        elif inline:
            exp_T = ([1] if runs_after else []) + [2]
            exp_res = 'passed'
        else:
            exp_T = [1, 2] if runs_after else []
            exp_res = 'passed' if runs_after else 'skipped'
        if T != exp_T:
            bad.append(('executed_statements', exp_T, T))
        if res != exp_res:
            bad.append(('result', exp_res, '%s (%s)' % (res, exc)))
    finally:
        sys.argv = old_argv
        os.environ.clear()
        os.environ.update(old_env)
    info = {'key': (comment, place)}
    if bad:
        info.update(bad=[(f, repr(a), repr(b)) for f, a, b in bad], text=text, comment=comment, place=place,
                    predicted={'directives': [dict(d) for d in ds] if not isinstance(ds, str) else ds, 'error': err, 'runs_after': runs_after})
    return info


def conditions_check(out):
    """every condition spelling judged by the real _is_requires_satisfied against the declarative table of the specification"""
    from xdoctest import directive
    # SatDecl / ErrDecl of Directive.tla, transcribed once more from the documentation of REQUIRES (reference for the replay)
    met = {'--xdvon', 'module:os', 'env:SET', 'env:SET==v', 'env:SET!=w', 'env:UNSET!=v', 'env:EMPTY==', 'here', 'HERE', 'posixname', 'cpython', 'CPython', 'py3'}
    errs = {'bogus', 'module:a:b', 'env:SET==v==w', 'env:SET>=v'}
    allc = ['--xdvon', '--xdvoff', 'module:os', 'module:xdv_nope', 'env:SET', 'env:EMPTY', 'env:UNSET', 'env:SET==v', 'env:SET==w', 'env:SET!=v',
            'env:SET!=w', 'env:UNSET==v', 'env:UNSET!=v', 'env:EMPTY==', 'here', 'HERE', 'elsewhere', 'posixname', 'nt', 'cpython', 'CPython', 'pypy',
            'py3', 'py2', 'bogus', 'module:a:b', 'env:SET==v==w', 'env:SET>=v']
    for c in allc:
        exp = 'error' if c in errs else ('met' if c in met else 'unmet')
        try:
            got = 'met' if directive._is_requires_satisfied(spell(c), argv=list(ARGV), environ=dict(ENVIRON)) else 'unmet'
        except (ValueError, KeyError):
            got = 'error'
        out.evaluations += 1
        if got != exp:
            out.violation({'kind': 'requires_condition', 'condition': c}, {'condition': spell(c), 'expected': exp, 'got': got, 'argv': ARGV, 'environ': ENVIRON})


def sig(info):
    return {'kind': 'directive_comment', 'fields': ','.join(sorted({b[0] for b in info['bad']}))}


def directive_phase(out, tier):
    _J['seed'] = common.seed()
    _J['world'] = world()
    spaces = [('option syntax', 'Syntax_Atoms', 'All_Seps', 'One_Prefix', 'One_Place', 3 if tier == 'thorough' else 2),
              ('recognition', 'Recog_Atoms', 'All_Seps', 'All_Prefixes', 'All_Places', 2),
              ('conditions', 'Cond_Atoms', 'Comma_Seps', 'One_Prefix', 'One_Place', 2)]
    for label, atoms, seps, pfxs, places, n in spaces:
        res = common.run_tlc('MC_Directive', cfg(atoms, seps, pfxs, places, n), printed=True, timeout=1800)
        common.tlc_must_pass(res, 'Directive ' + label)
        out.add_tlc(res, 'exhaustive:Directive/%s<=%d' % (label, n))
        if res.violated:
            raise common.MachineryError('spec-level invariant %s violated on the unchanged spec (Directive %s):\n%s' % (res.violated, label, res.stdout[-3000:]))
        raws = sorted(set(common.iter_printed(res)))
        if not raws:
            raise common.MachineryError('Directive %s: TLC printed no case' % label)
        infos = common.parallel_map(_one, raws, chunk=40)
        for info in infos:
            out.traces += 1
            out.evaluations += 1
            out.count_nontrivial(info['key'])
            if 'bad' in info:
                out.violation(sig(info), {'doctest': info['text'], 'comment': info['comment'], 'placement': info['place'], 'predicted': info['predicted'],
                                          'disagreements': info['bad']})
        out.extra['directive_cases[%s]' % label] = len(raws)
    conditions_check(out)
    devs = {}
    for dev in ('NoBlankSplit', 'SplitInParens', 'NegativeDefault', 'CaseSensitiveNames'):
        res = common.run_tlc('MC_Directive', cfg('Syntax_Atoms', 'All_Seps', 'One_Prefix', 'One_Place', 2, deviation=(dev,)), timeout=900)
        common.tlc_must_pass(res, 'Directive deviation ' + dev)
        if not res.violated:
            raise common.MachineryError('deviation %s of Directive.tla violates no invariant: the check would be vacuous' % dev)
        devs[dev] = res.violated
    out.extra.setdefault('deviations_rejected', {}).update(devs)


# ---------------------------------------------------------------------------
# C20: option comments of the standard doctest module, the standard module itself as the judge

def _one_std(raw):
    """the doctest of a Directive.tla case (standard prefix, inline placement) under the standard module and under xdoctest: the same
    statements must be executed (texts the standard module rejects or fails are discarded)"""
    import doctest
    from xdoctest import core
    from . import runlib
    atoms, seps, pfx, place, recognised, inline, ds, err, st, runs_after = tlaval.parse_value(raw)
    atoms = [dict(a) for a in atoms]
    for a in atoms:
        a['args'] = list(a['args'])
    rot = (zlib.crc32(raw.encode()) + _J['seed']) % 100003
    comment = '# ' + pfx + render_opts(atoms, list(seps), rot)
    text, _ = render_doctest(comment, place, rot, nforms=3)
    info = {'key': (comment, place, rot % 3)}
    T_std = []
    try:
        test = doctest.DocTestParser().get_doctest(text, runlib.make_namespace(T_std), 'c20dir', '<c20dir>', 0)
        old = sys.stdout
        try:
            res = doctest.DocTestRunner(verbose=False, optionflags=0).run(test, out=lambda s: None, clear_globs=False)
        finally:
            sys.stdout = old
    except ValueError:
        info['excluded'] = 'the standard module cannot parse the text'
        return info
    if res.failed:
        info['excluded'] = 'the standard module rejects the text'
        return info
    exp_T = ([1] if runs_after else []) + [2]
    if T_std != exp_T:
        raise common.MachineryError('the standard module executes %r, the specification says %r for\n%s' % (T_std, exp_T, text))
    T = []
    bad = []
    with warnings.catch_warnings():
        warnings.simplefilter('ignore')
        exs = list(core.parse_docstr_examples(text, callname='c20dir', style='freeform'))
    if len(exs) != 1:
        # (finding F25: a bare '...' line directly under the header of a compound statement - the third form of the placement)
        f25 = place == 'afterblank' and rot % 3 == 2
        bad.append(('collected_bare_line_directly_under_a_compound_header' if f25 else 'collected', 'one doctest', len(exs)))
    else:
        e = exs[0]
        e.mode = 'native'
        e.config['colored'] = False
        e.global_namespace.update(runlib.make_namespace(T))
        old = sys.stdout
        sys.stdout = io.StringIO()
        try:
            s = e.run(verbose=0, on_error='return')
        finally:
            sys.stdout = old
        if s['failed']:
            bad.append(('passes_like_stdlib', 'passed', repr(s['exc_info'][1])[:200]))
        elif T != T_std:
            bad.append(('same_examples_executed', T_std, T))
    if bad:
        info.update(bad=[(f, repr(a), repr(b)) for f, a, b in bad], text=text, comment=comment, place=place)
    return info


def std_phase(out, tier):
    """Directive.tla over the standard prefix, the inline placements (behind the statement, on a continuation line, behind an empty
    source line) and the options both modules know; every case under the standard module and under xdoctest"""
    _J['seed'] = common.seed()
    _J['world'] = world()
    res = common.run_tlc('MC_Directive', cfg('Std_Atoms', 'All_Seps', 'Std_Prefix', 'Std_Places', 2), printed=True, timeout=900)
    common.tlc_must_pass(res, 'Directive standard options')
    out.add_tlc(res, 'exhaustive:Directive/standard option comments<=2')
    if res.violated:
        raise common.MachineryError('spec-level invariant %s violated on the unchanged spec (Directive, standard options):\n%s' % (res.violated, res.stdout[-3000:]))
    raws = sorted(set(common.iter_printed(res)))
    if not raws:
        raise common.MachineryError('Directive standard options: TLC printed no case')
    # every case under three seeds: the statement forms of a placement rotate with the seed
    jobs = []
    for k in range(3):
        jobs += [(r, k) for r in raws]
    infos = common.parallel_map(_one_std_k, jobs, chunk=40)
    n_ex = 0
    for info in infos:
        out.traces += 1
        out.evaluations += 1
        if 'excluded' in info:
            n_ex += 1
            continue
        out.count_nontrivial(info['key'])
        if 'bad' in info:
            out.violation({'kind': 'std_option_comment', 'fields': ','.join(sorted({b[0] for b in info['bad']}))},
                          {'doctest': info['text'], 'comment': info['comment'], 'placement': info['place'], 'disagreements': info['bad']})
    out.extra['std_option_comment_cases'] = len(infos) - n_ex
    out.extra['std_option_comment_discarded'] = n_ex
    if len(infos) - n_ex < len(infos) // 10:
        raise common.MachineryError('standard option comments: the standard module discards nearly every text (%d of %d)' % (n_ex, len(infos)))


def _one_std_k(job):
    raw, k = job
    old = _J['seed']
    _J['seed'] = old + k
    try:
        return _one_std(raw)
    finally:
        _J['seed'] = old
