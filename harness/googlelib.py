"""Google-style blocks: specs/GoogleBlocks.tla (the grouping loop of docscrape_google.split_google_docblocks and the
one-doctest-per-example-block rule) model-checked and replayed into the real functions.  Used by harness/c07.py."""
import warnings
import zlib

from . import common, tlaval

INVS = ['GroupsInOrder', 'ExampleBlocksAreDecl', 'BlocksDisjoint', 'SrcUnderTagIsInBlock']
KINDS = [('tag', 0), ('tag', 1), ('otag', 0), ('text', 0), ('text', 1), ('text', 2), ('src', 0), ('src', 1), ('src', 2), ('blank', 0)]
_J = {}

TAGS = ['Example:', 'Doctest:', 'Examples:', 'Example::', 'Doctest::', 'Example :', 'Examples ::']
OTAGS = ['Args:', 'Returns:', 'Note:', 'Raises:', 'Yields:', 'Kwargs:', 'Todo:', 'Attributes:']


def cfg(maxlines, deviation=('Emit',)):
    return '\n'.join(['SPECIFICATION Spec', 'CONSTANTS', ' LineKinds <- AllKinds', ' MaxLines = %d' % maxlines,
                      ' Deviation = {%s}' % ', '.join('"%s"' % d for d in deviation)] + ['INVARIANT %s' % i for i in INVS] + ['CHECK_DEADLOCK FALSE', ''])


def render_line(k, ind, n, rot):
    pad = '    ' * ind
    if k == 'blank':
        return ''
    if k == 'tag':
        return pad + TAGS[(rot + n) % len(TAGS)]
    if k == 'otag':
        return pad + OTAGS[(rot + n) % len(OTAGS)]
    if k == 'src':
        return pad + '>>> x%d = %d' % (n, n)
    return pad + ['some words %d' % n, 'a (int): an argument %d' % n, 'Example of use %d' % n, 'ends with a colon %d:' % n][(rot + n) % 4]


def _one(raw):
    from xdoctest import core
    from xdoctest.docstr import docscrape_google
    lines, gids, eblocks = tlaval.parse_value(raw)
    rot = (zlib.crc32(raw.encode()) + _J['seed']) % 100003
    text_lines = [render_line(k, ind, n, rot) for n, (k, ind) in enumerate(lines, 1)]
    bad = []
    for trailing in ('', '\n    ', '\n'):
        doc = '\n' + '\n'.join(text_lines) + trailing
        # (a) the grouping: first line and class of every group
        exp_groups = []
        seen = set()
        for n, g in enumerate(gids, 1):
            if g not in seen and g != 0:
                seen.add(g)
                k, ind = lines[n - 1]
                # a group opened by a tag line is a tagged block, anything else is documentation text
                exp_groups.append((n, 'example' if k == 'tag' and g != (gids[n - 2] if n > 1 else 0) and _is_valid_start(lines, gids, n) else
                                   'other' if k == 'otag' and _is_valid_start(lines, gids, n) else 'doc'))
        if gids and gids[0] == 0 and any(g == 0 for g in gids):
            exp_groups.insert(0, (0, 'doc'))            # line 0 (the empty line behind the quotes) opens the leading text, when there is any
        try:
            with warnings.catch_warnings():
                warnings.simplefilter('ignore')
                blocks = docscrape_google.split_google_docblocks(doc)
        except Exception as ex:
            bad.append(('split_google_docblocks[%r]' % trailing, 'blocks', 'raised %r' % (ex,)))
            continue
        got_groups = [(blk.offset, 'example' if key.startswith(('Example', 'Doctest')) else 'doc' if key == '__DOC__' else 'other') for key, blk in blocks]
        if got_groups != exp_groups:
            bad.append(('groups(offset,class)[%r]' % trailing, exp_groups, got_groups))
        # (b) one doctest per example block, in order, starting on the line behind its tag
        start = [1, 12, 345][rot % 3]
        try:
            with warnings.catch_warnings():
                warnings.simplefilter('ignore')
                exs = list(core.parse_google_docstr_examples(doc, callname='g', lineno=start))
        except Exception as ex:
            bad.append(('parse_google_docstr_examples[%r]' % trailing, 'examples', 'raised %r' % (ex,)))
            continue
        exp_ex = [(j, start + first + 1, bool(hs)) for j, (first, last, hs) in enumerate(eblocks)]
        got_ex = []
        for e in exs:
            try:
                e._parse()
                has = any(getattr(p, 'exec_lines', None) for p in e._parts)
            except Exception:
                has = 'unparsable'
            got_ex.append((e.num, e.lineno, has))
        if got_ex != exp_ex:
            bad.append(('examples(num,lineno,has_code)[%r]' % trailing, exp_ex, got_ex))
    info = {'key': raw}
    if bad:
        info.update(bad=[(f, repr(a), repr(b)) for f, a, b in bad], text='\n'.join(text_lines))
    return info


def _is_valid_start(lines, gids, n):
    """line n (1-based) opens a new group"""
    return gids[n - 1] != (gids[n - 2] if n > 1 else 0)


def google_phase(out, tier):
    _J['seed'] = common.seed()
    n = 5 if tier == 'quick' else 6
    res = common.run_tlc('MC_GoogleBlocks', cfg(n), printed=True, timeout=3000)
    common.tlc_must_pass(res, 'GoogleBlocks')
    out.add_tlc(res, 'exhaustive:GoogleBlocks<=%d lines' % n)
    if res.violated:
        raise common.MachineryError('spec-level invariant %s violated on the unchanged spec (GoogleBlocks):\n%s' % (res.violated, res.stdout[-3000:]))
    raws = sorted(set(common.iter_printed(res)))
    limit = 40000 if tier == 'quick' else 300000
    if len(raws) > limit:
        import random
        raws = random.Random(common.seed() + 7).sample(raws, limit)
        out.extra['google_blocks_sampled'] = True
    for info in common.parallel_map(_one, raws, chunk=200):
        out.traces += 1
        out.evaluations += 1
        if 'bad' in info:
            out.violation({'kind': 'google_blocks', 'fields': ','.join(sorted({b[0].split('[')[0].split('(')[0] for b in info['bad']}))},
                          {'docstring': info['text'], 'disagreements': info['bad']})
    out.extra['google_block_docstrings'] = len(raws)
    devs = {}
    for dev in ('IndentedTags', 'NoLookahead'):
        r2 = common.run_tlc('MC_GoogleBlocks', cfg(4, deviation=(dev,)), timeout=900)
        common.tlc_must_pass(r2, 'GoogleBlocks deviation ' + dev)
        if not r2.violated:
            raise common.MachineryError('deviation %s of GoogleBlocks.tla violates no invariant: the check would be vacuous' % dev)
        devs[dev] = r2.violated
    out.extra.setdefault('deviations_rejected', {}).update(devs)
