"""C20 - backwards compatible: what passes under the standard doctest module passes here.

spec  : specs/DocParse.tla with alphabet C20_Blocks: examples in standard
        syntax (primary prompts, "..." continuations with or without a
        terminating bare "...", the want directly under each example):
        silent assignment, comment, echoed value, print, print and value, raising
        with a 2- or 3-line traceback want, semicolon line, multi-line literal,
        multi-line expression, compound and decorated statements, examples
        carrying '# doctest: +SKIP' or another option directive, separated by
        blank lines and prose, under a common indentation.  The number of want
        lines of every example is what the REPL prints for it.  Invariant
        StdCompat: every want stays with the example directly above it, a value
        is echoed (eval/single mode) exactly for expression examples, and no
        part is in the one configuration that cannot match "stdout + repr"
        (eval mode on an example that prints and returns a value) - that
        configuration is the known finding F6 and is reported when met.
replay: the wants are produced by running the examples with REPL semantics
        (the standard module's own runner, recording what it got); the final
        text is run by doctest.DocTestRunner(optionflags=0) - texts it rejects
        are discarded and counted - and by xdoctest (freeform collection):
        xdoctest must collect it, pass, and execute the same examples
        (statement trace equal to the standard module's).
"""
import doctest
import io
import sys
import warnings
import zlib

from . import common, parselib, runlib

BOUNDS = {'quick': [('C20_Blocks', 3, 30000)], 'thorough': [('C20_Blocks', 3, None), ('C20_Blocks', 4, 200000)]}
OPT_DIRS = ['# doctest: +ELLIPSIS', '# doctest: +NORMALIZE_WHITESPACE', '# doctest:+ELLIPSIS', '# doctest: +ELLIPSIS +NORMALIZE_WHITESPACE',
            '# doctest: +REPORT_NDIFF, +ELLIPSIS']
SKIP_DIRS = ['# doctest: +SKIP', '# doctest: +ELLIPSIS +SKIP', '# doctest:+SKIP', '# doctest: +SKIP, +ELLIPSIS']


class _Recorder(doctest.DocTestRunner):
    def __init__(self):
        doctest.DocTestRunner.__init__(self, verbose=False, optionflags=0)
        self.gots = {}
        self.boom = {}

    def report_start(self, out, test, example):
        pass

    def report_success(self, out, test, example, got):
        self.gots[example.lineno] = got

    def report_failure(self, out, test, example, got):
        self.gots[example.lineno] = got

    def report_unexpected_exception(self, out, test, example, exc_info):
        self.boom[example.lineno] = exc_info


def _std_run(text, recorder=None):
    T = []
    ns = runlib.make_namespace(T)
    parser = doctest.DocTestParser()
    test = parser.get_doctest(text, ns, 'c20', '<c20>', 0)
    runner = recorder or doctest.DocTestRunner(verbose=False, optionflags=0)
    old = sys.stdout
    try:
        res = runner.run(test, out=lambda s: None, clear_globs=False)
    finally:
        sys.stdout = old
    return res, T, test


def extra(case, lines, rot):
    if case['err'] != 'none' or case['f11']:
        return []
    blocks = case['blocks']
    for x, b in enumerate(blocks):
        if b['t'] == 'text' and x > 0 and blocks[x - 1]['t'] != 'blank':
            return [('EXCLUDED', 'prose directly under an example (part of its want for the standard module too)', '')]
    # positions: want lines of each example block
    want_idx = {}
    last_sid = 0
    for n, ((k, ind, sid), lab) in enumerate(zip(case['lines'], case['labels'])):
        if sid:
            last_sid = sid
        elif k == 'text' and lab == 'want' and last_sid and blocks[last_sid - 1]['t'] == 'ex':
            want_idx.setdefault(last_sid, []).append(n)
        elif k in ('blank',) or (k == 'text' and lab != 'want'):
            last_sid = 0
    pad = lines[0][:len(lines[0]) - len(lines[0].lstrip())] if lines and lines[0].strip() else ''
    work = list(lines)
    # first pass: REPL semantics, record what each example prints
    rec = _Recorder()
    try:
        _, _, test = _std_run('\n'.join(work) + '\n', rec)
    except ValueError:
        return [('EXCLUDED', 'stdlib cannot parse', '')]          # e.g. inconsistent leading whitespace: not standard syntax
    by_line = {}
    for ex in test.examples:
        by_line[ex.lineno] = ex
    sid_first_line = {}
    for n, (k, ind, sid) in enumerate(case['lines']):
        if sid and sid not in sid_first_line:
            sid_first_line[sid] = n
    for sid, idxs in want_idx.items():
        b = blocks[sid - 1]
        ln = sid_first_line[sid]
        indent = work[ln][:len(work[ln]) - len(work[ln].lstrip())]
        if b['shape'] == 'exc':
            import traceback
            ei = rec.boom.get(ln)
            if ei is None:
                raise common.MachineryError('the raising example at line %d did not raise\n%s' % (ln, '\n'.join(work)))
            final = traceback.format_exception_only(ei[0], ei[1])[-1].rstrip('\n')        # what the REPL shows last
            hdr = ['Traceback (most recent call last):', 'Traceback (innermost last):'][sid % 2]
            wl = [hdr] + (['  File "<stdin>", line 1, in <module>'] if len(idxs) == 3 else []) + [final]
            if b['dir'] == 'opt':
                # +ELLIPSIS: the message elided; +IGNORE_EXCEPTION_DETAIL alone: another message altogether (only the type counts)
                wl[-1] = final.split(':')[0] + (': ...' if 'ELLIPSIS' in work[ln] else ': quite another detail, v2.0')
        elif b['dir'] == 'first':
            wl = ['skipped output %d' % j for j in range(len(idxs))]
        else:
            got = rec.gots.get(ln)
            if got is None:
                raise common.MachineryError('no recorded output for the example at line %d of\n%s' % (ln, '\n'.join(work)))
            wl = [g if g.strip() else '<BLANKLINE>' for g in got.split('\n')[:-1]]
            if b['dir'] == 'opt':
                if 'ELLIPSIS' in work[ln]:
                    wl = [(w[:1] + '...' if len(w) > 1 and w != '<BLANKLINE>' else w) for w in wl]
                else:
                    wl = [w + '   ' if w != '<BLANKLINE>' else w for w in wl]       # NORMALIZE_WHITESPACE: trailing blanks in the want
        if len(wl) != len(idxs):
            raise common.MachineryError('the REPL prints %d lines for example %d (%s), the specification has %d want lines\n%s' % (len(wl), sid, b['shape'], len(idxs), '\n'.join(work)))
        for n, w in zip(idxs, wl):
            work[n] = indent + w
    text = '\n'.join(work) + '\n'
    # the standard module is the judge of "passes under the standard doctest module"
    res, T_std, _ = _std_run(text)
    if res.failed:
        return [('EXCLUDED', 'stdlib rejects', '')]
    # xdoctest
    from xdoctest import core
    with warnings.catch_warnings(record=True) as wl_:
        warnings.simplefilter('always')
        exs = list(core.parse_docstr_examples(text, callname='c20', style='freeform'))
    bad = []
    n_std_examples = res.attempted
    if not exs:
        if any(b['t'] == 'ex' for b in blocks):
            bad.append(('collected', 'one doctest', 'none (%s)' % '; '.join(str(w.message)[:100] for w in wl_)))
        return bad
    T = []
    e = exs[0]
    e.mode = 'native'
    e.config['colored'] = False
    e.global_namespace.update(runlib.make_namespace(T))
    old = sys.stdout
    sys.stdout = io.StringIO()
    try:
        s = e.run(verbose=0, on_error='return')
    finally:
        sys.stdout = old
    f6 = any(p[0] == 'code' and p[4] >= p[3] and p[5] == 'eval' and
             any(case['lines'][j - 1][2] and blocks[case['lines'][j - 1][2] - 1]['shape'] in ('expr', 'mlx2') for j in range(p[1], p[2] + 1)) for p in case['parts'])
    if s['failed']:
        bad.append(('passes_like_stdlib' + ('(print_and_value)' if f6 else ''), 'passed', repr(s['exc_info'][1])[:200]))
    elif T != T_std:
        bad.append(('same_examples_executed', T_std, T))
    if bad:
        bad.append(('final_text', text, ''))
    return bad


def sig(info):
    fields = sorted({b[0].split('.')[0].split('(')[0].rstrip('0123456789') for b in info['bad'] if b[0] != 'final_text'})
    return {'kind': 'compat_replay', 'fields': ','.join(fields), 'print_and_value': any('print_and_value' in b[0] for b in info['bad'])}


def run(tier):
    out = common.Outcome('C20', tier)
    parselib.self_check_templates()
    out.rule = ('every docstring of <= N example/prose/blank blocks over C20_Blocks (25 block kinds) in DocParse.tla; wants produced with REPL semantics; '
                'texts the standard module rejects are discarded and counted')
    # spec level: StdCompat, and F6 must be found when allowed
    res = common.run_tlc('MC_DocParse', parselib.cfg('C20_Blocks', 3, parselib.INVS + ['StdCompat'], deviation=('StdSyntax',)), timeout=1800)
    common.tlc_must_pass(res, 'DocParse StdCompat')
    out.add_tlc(res, 'exhaustive:StdCompat C20_Blocks<=3')
    if res.violated:
        raise common.MachineryError('spec-level invariant %s violated on the unchanged spec:\n%s' % (res.violated, res.stdout[-3000:]))
    common.cleanup_scratch()
    parselib._JOB['dirs'] = None
    excluded = [0]

    def sig_or_excluded(info):
        return sig(info)
    parselib._JOB['render_kw'] = {'dirs': {'first': lambda b, sid: SKIP_DIRS[sid % len(SKIP_DIRS)], 'last': '# doctest: +SKIP', 'neg': '# doctest: -SKIP',
                                           'opt': lambda b, sid: OPT_DIRS[sid % len(OPT_DIRS)] if b['shape'] != 'exc' else ['# doctest: +ELLIPSIS', '# doctest: +IGNORE_EXCEPTION_DETAIL +ELLIPSIS', '# doctest: +IGNORE_EXCEPTION_DETAIL'][sid % 3]},
                                  'texts': parselib.PLAIN_TEXTS}
    try:
        for blocks, n, limit in BOUNDS[tier]:
            parselib.run_space(out, '%s<=%d' % (blocks, n), blocks, n, sig_or_excluded, extra=extra, limit=limit)
    finally:
        parselib._JOB.pop('render_kw', None)
    # option comments of the standard module: placements of Directive.tla (behind the statement, on a continuation line, behind an
    # empty source line of the statement), the standard module as the judge
    from . import dirlib
    dirlib.std_phase(out, tier)
    out.exhaustive = not out.extra.get('replay_sampled', False)
    out.assumptions = ['the standard module decides which texts count (anything it rejects is discarded)',
                       'option directives: SKIP, ELLIPSIS, NORMALIZE_WHITESPACE (and ELLIPSIS on an exception message)',
                       'known finding F6: an example that prints and returns a value on one line, want = stdout followed by the repr']
    return out.finish()


def replay(path):
    import json
    d = json.load(open(path))['detail']
    print(d['text'])
    print('disagreements:', d['disagreements'])
    return 0
