"""C14 - malformed docstrings are contained: bad syntax never crashes collection.

spec  : specs/DocParse.tla with alphabet C14_Blocks: well-formed building
        blocks mixed with malformed ones (a statement that is not valid Python,
        a statement whose brackets / triple quotes never close, a bracketed
        statement continued by unprefixed lines, a '... text' line read as
        code).  The model has explicit error transitions (incomplete,
        badindent, syntax); every finished docstring ends in exactly one of
        {parts, error}.  Invariants as C13 plus NoSpuriousError (an error needs
        a malformed block).
replay: (1) every finished docstring is parsed by the real DoctestParser under
        an alarm: the outcome class must be the predicted one - parts, or the
        library's DoctestParseError, never another exception, never a hang.
        (2) containment: three docstrings (one per function, each from the
        space, at least one malformed) are written into one module and
        collected with core.parse_doctestables under each style {auto, google,
        freeform}: a malformed docstring must give a warning and no example,
        every well-formed one its example, and each collected example must run.
        (3) envelope only: seeded random strings from a grammar of prompt
        fragments, brackets, quotes, backslashes, directive fragments, control
        characters and keywords - alone and as one docstring of a module - must
        end in parts or DoctestParseError within the alarm.
"""
import contextlib
import io
import os
import random
import signal
import sys
import warnings
import zlib

from . import common, parselib

BOUNDS = {'quick': dict(n=3, modules=1500, random=6000), 'thorough': dict(n=4, modules=12000, random=100000, limit=300000)}


class _Alarm(Exception):
    pass


def _on_alarm(signum, frame):
    raise _Alarm()


def sig(info):
    fields = sorted({b[0].split('.')[0].split('(')[0].rstrip('0123456789') for b in info['bad']})
    return {'kind': 'parse_replay', 'fields': ','.join(fields), 'prompt_indent_change_after_source': bool(info['f11'])}


def extra(case, lines, rot):
    """hang detection around the real parse"""
    signal.signal(signal.SIGALRM, _on_alarm)
    signal.alarm(5)
    try:
        parselib.real_parse('\n'.join(lines))
    except _Alarm:
        return [('hang', 'returns within 5 s', 'timeout')]
    finally:
        signal.alarm(0)
    return []


# ---------------------------------------------------------------------------
# (2) containment at module level

HEADER = 'from harness.runlib import make_namespace as _mk\nT = []\nglobals().update(_mk(T))\n'
_M = {}


def _docstring(lines, style_layout):
    body = ['    Summary.', '', '    Example:'] + [('        ' + l if l else '') for l in lines] if style_layout == 'google' \
        else [('    ' + l if l else '') for l in lines]
    text = '\n'.join(body)
    q = '"""' if '"""' not in text else ("'''" if "'''" not in text else None)
    if q is None or text.rstrip().endswith(q[0]) or '\\' in text and False:
        return None
    return 'r%s\n%s\n    %s' % (q, text, q)


def _module_case(args):
    idx, raws = args
    from xdoctest import core
    rot = (zlib.crc32(raws[0].encode()) + _M['seed']) % 100003
    cases = [parselib.decode(r) for r in raws]
    layout = ['plain', 'google'][rot % 2]
    src = [HEADER]
    exp = {}
    for i, case in enumerate(cases):
        lines = parselib.render(case, rot + i, texts=parselib.PLAIN_TEXTS)
        doc = _docstring(lines, layout)
        if doc is None or case['f11']:
            return None
        src.append('\n\ndef f%d():\n    %s\n    return %d\n' % (i, doc, i))
        has_code = any(p[0] == 'code' for p in case['parts'])
        exp['f%d' % i] = (case['err'], has_code)
    modname = 'xdvc14_%d_%d' % (os.getpid(), idx)
    path = os.path.join(_M['dir'], modname + '.py')
    with open(path, 'w') as f:
        f.write(''.join(src))
    bad = []
    styles = ['freeform', 'auto', 'google'] if layout == 'google' else ['freeform', 'auto']
    try:
        for style in styles:
            signal.signal(signal.SIGALRM, _on_alarm)
            signal.alarm(20)
            try:
                with warnings.catch_warnings(record=True) as wl, contextlib.redirect_stdout(io.StringIO()):
                    warnings.simplefilter('always')
                    try:
                        examples = list(core.parse_doctestables(path, style=style, analysis='static'))
                    except Exception as ex:
                        bad.append(('collection[%s]' % style, 'examples', 'raised %r' % (ex,)))
                        continue
                got = {}
                for e in examples:
                    got[e.callname] = got.get(e.callname, 0) + 1
                wtext = ' '.join(str(w.message) for w in wl)
                for name, (err, has_code) in exp.items():
                    # a google block is one doctest whatever it holds; freeform needs at least one prompt
                    want_n = 1 if (err == 'none' and (has_code or (layout == 'google' and style != 'freeform'))) else 0
                    if got.get(name, 0) != want_n:
                        bad.append(('examples[%s][%s]' % (style, name), want_n, got.get(name, 0)))
                    if err != 'none' and name not in wtext:
                        bad.append(('warning[%s][%s]' % (style, name), 'a warning naming the docstring', wtext[:200]))
                for e in examples:
                    e.config['default_runtime_state'] = {'IGNORE_WANT': True}
                    e.mode = 'native'
                    old = sys.stdout
                    sys.stdout = open(os.devnull, 'w')
                    try:
                        s = e.run(verbose=0, on_error='return')
                        if s['failed']:
                            bad.append(('runnable[%s][%s]' % (style, e.callname), 'passes', repr(s['exc_info'][1])[:200]))
                    except BaseException as ex:
                        bad.append(('runnable[%s][%s]' % (style, e.callname), 'returns', 'raised %r' % (ex,)))
                    finally:
                        sys.stdout.close()
                        sys.stdout = old
            except _Alarm:
                bad.append(('hang[%s]' % style, 'returns', 'timeout'))
            finally:
                signal.alarm(0)
    finally:
        sys.modules.pop(modname, None)
        os.unlink(path)
    info = {'n_bad_docstrings': sum(1 for e, _ in exp.values() if e != 'none')}
    if bad:
        info['bad'] = [(f, repr(a), repr(b)) for f, a, b in bad]
        info['text'] = ''.join(src)
    return info


def module_phase(out, raws, count):
    rng = random.Random(common.seed() + 14)
    good = [r for r in raws if r.rstrip().endswith('"none", FALSE, ' + r.rstrip().split('"none", FALSE, ')[-1]) and '"none", FALSE' in r]
    badr = [r for r in raws if '"syntax"' in r or '"incomplete"' in r or '"badindent"' in r]
    if not good or not badr:
        raise common.MachineryError('module phase: no good/bad docstrings to combine')
    jobs = []
    for i in range(count):
        trio = [rng.choice(good), rng.choice(badr), rng.choice(good if rng.random() < 0.7 else badr)]
        rng.shuffle(trio)
        jobs.append((i, trio))
    _M['seed'] = common.seed()
    _M['dir'] = common.scratch_dir('xdv-c14')
    sys.path.insert(0, _M['dir'])
    try:
        infos, hung = common.parallel_map_hangsafe(_module_case, jobs, chunk=10, deadline=120)
        infos = [i for i in infos if i is not None]
    finally:
        sys.path.remove(_M['dir'])
    for it in hung:
        out.violation({'kind': 'module_containment', 'fields': 'hang'}, {'module_of_docstrings': it, 'observed': 'collection did not return within 120 s (stuck outside Python code)'})
    for info in infos:
        out.traces += 1
        out.evaluations += 1
        if 'bad' in info:
            fields = sorted({b[0].split('[')[0] for b in info['bad']})
            out.violation({'kind': 'module_containment', 'fields': ','.join(fields)}, {'module_source': info['text'], 'disagreements': info['bad']})
    out.extra['modules_collected'] = len(infos)
    common.cleanup_scratch()


# ---------------------------------------------------------------------------
# (3) envelope for grammar-based random strings

FRAGMENTS = ['>>> ', '... ', '>>>', '...', '    ', '\t', '\n', '\n', '\n', '(', ')', '[', ']', '{', '}', "'", '"', "'''", '"""', '\\', '\\\n',
             '# xdoctest: +SKIP', '# xdoctest: +REQUIRES(', '# doctest: +ELLIPSIS', '# xdoc: -', 'def ', 'class ', 'return ', 'if ', 'else:', 'lambda ',
             'x', ' = ', '1', ':', ',', ';', '@', 'print(', 'Example:', 'Args:', '\x00', '\x0c', '\r', '\x1b[31m', 'é', 'await ', 'async ', 'for ', ' in ', 'yield']


def _random_case(i):
    from xdoctest import core
    rng = random.Random(_M['seed'] * 1000003 + i)
    s = ''.join(rng.choice(FRAGMENTS) for _ in range(rng.randint(1, 14)))
    signal.signal(signal.SIGALRM, _on_alarm)
    signal.alarm(5)
    try:
        kind, got = parselib.real_parse(s)
        if kind == 'OtherError':
            return ('parse', s, got)
        for style in ('freeform', 'google', 'auto'):
            try:
                with warnings.catch_warnings(record=True), contextlib.redirect_stdout(io.StringIO()):
                    warnings.simplefilter('always')
                    list(core.parse_docstr_examples(s, callname='f', modpath=None, lineno=1, style=style))
            except Exception as ex:
                return ('parse_docstr_examples[%s]' % style, s, repr(ex)[:300])
    except _Alarm:
        return ('hang', s, 'timeout')
    finally:
        signal.alarm(0)
    return None


def random_phase(out, count):
    _M['seed'] = common.seed()
    res, hung = common.parallel_map_hangsafe(_random_case, list(range(count)), chunk=200, deadline=40)
    for i in hung:
        rng = random.Random(_M['seed'] * 1000003 + i)
        s = ''.join(rng.choice(FRAGMENTS) for _ in range(rng.randint(1, 14)))
        out.violation({'kind': 'random_envelope', 'fields': 'hang'}, {'string': s, 'observed': 'no answer within 40 s (stuck outside Python code)', 'where': 'hang'})
    for r in res:
        out.evaluations += 1
        if r is not None:
            out.violation({'kind': 'random_envelope', 'fields': r[0].split('[')[0]}, {'string': r[1], 'observed': r[2], 'where': r[0]})
    out.extra['random_strings'] = count


def run(tier):
    out = common.Outcome('C14', tier)
    parselib.self_check_templates()
    # malformed in another way than by Python syntax: a directive comment whose parentheses do not balance makes the parser
    # fail inside directive extraction (IndexError / AssertionError wrapped in the parse error, not a SyntaxError)
    parselib.EXTRA['badone'] = [["x{k} = p({k})  # xdoctest: +SKIP)"], ["y{k} = 0  # xdoctest: +REQUIRES(module:os"], ["z{k} = 0  # doctest: +ELLIPSIS)"]]
    b = BOUNDS[tier]
    out.rule = ('every docstring of <= %d building blocks over C14_Blocks (well-formed and malformed blocks); %d three-docstring modules x styles; '
                '%d random strings (envelope only)' % (b['n'], b['modules'], b['random']))
    res_raws = []

    def collect_extra(case, lines, rot):
        return extra(case, lines, rot)
    # run the space once, keeping the printed cases for the module phase
    res = common.run_tlc('MC_DocParse', parselib.cfg('C14_Blocks', b['n'], parselib.INVS), printed=True, timeout=2400)
    common.tlc_must_pass(res, 'DocParse C14')
    out.add_tlc(res, 'exhaustive:C14_Blocks<=%d' % b['n'])
    if res.violated:
        raise common.MachineryError('spec-level invariant %s violated on the unchanged spec:\n%s' % (res.violated, res.stdout[-3000:]))
    raws = list(common.iter_printed(res))
    if b.get('limit') and len(raws) > b['limit']:
        raws = random.Random(common.seed()).sample(raws, b['limit'])
        out.extra['replay_sampled'] = True
    parselib._JOB['seed'] = common.seed()
    parselib._JOB['extra'] = extra
    parselib._JOB['outcome_only_when_f11'] = True
    n_err = 0
    infos, hung = common.parallel_map_hangsafe(parselib._one, raws, chunk=100, deadline=60)
    for raw in hung:
        try:
            case = parselib.decode(raw)
            text = '\n'.join(parselib.render(case, (zlib.crc32(raw.encode()) + common.seed()) % 100003)[0])
        except Exception:
            text = '<not rendered>'
        out.violation({'kind': 'parse_replay', 'fields': 'hang', 'prompt_indent_change_after_source': False},
                      {'text': text, 'case': raw[:2000], 'disagreements': [('hang', 'returns within 60 s', 'stuck outside Python code')]})
    for info in infos:
        out.traces += 1
        out.evaluations += 1
        out.count_nontrivial(info['key'])
        n_err += info['err'] != 'none'
        if 'bad' in info:
            out.violation(sig(info), {'text': info['text'], 'case': info['case'], 'disagreements': info['bad']})
        elif 'text' in info:
            out.sample({'docstring': info['text'], 'predicted_error': info['err']}, limit=4)
    out.extra['docstrings_with_predicted_parse_error'] = n_err
    if n_err == 0:
        raise common.MachineryError('vacuity: no docstring of the space is predicted to be malformed')
    module_phase(out, raws, b['modules'])
    random_phase(out, b['random'])
    out.exhaustive = not out.extra.get('replay_sampled', False)
    out.assumptions = ['for the random strings the specification supplies only the envelope (parts or DoctestParseError, no hang); the outcome is not predicted',
                       '"never hangs" is decided by a 5 s alarm per parse']
    return out.finish()


def replay(path):
    import json
    d = json.load(open(path))['detail']
    print(d.get('text') or d.get('module_source') or repr(d.get('string')))
    print('disagreements:', d.get('disagreements') or d.get('observed'))
    return 0
