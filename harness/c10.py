"""C10 - native runner tallies and exit status agree with the per-doctest outcomes.

spec  : specs/Session.tla, native front end: Gather (all minus force-disabled,
        or the named doctest even if disabled) / RunNext (one run per gathered
        doctest, tallies, failed list) / NativeExit (status from n_failed) /
        List.  A module is a sequence of doctests whose outcome alone is known
        by construction: pass, fail by output, fail by exception, all skipped,
        partly skipped, expected exception, comment only, force-disabled
        (5 spellings) passing / failing, want needing ELLIPSIS; default options
        none / +SKIP / -ELLIPSIS.  Invariants: RunSetRight, TalliesAddUp,
        ExitIffFailed, ListNamesAll.
replay: each finished case is rendered to a module; runner.doctest_module
        (in process, verbosity rotating 0..3) must return the predicted
        n_total/n_passed/n_failed/n_skipped and failed list, the statements of
        exactly the gathered doctests must have run once, in order;
        xdoctest.__main__.main must return the predicted status; 'list' must
        print every doctest; a rotating sample also through a
        `python -m xdoctest` subprocess.
trace : code -> spec.  The session part of the probe records, for every call of
        runner.doctest_module, what was collected (with the force-disabled and
        named flags), what was selected, every DocTest.run of the loop with
        its outcome, the tallies, the returned summary and the status returned
        by the command line entry point; specs/SessionTrace.tla (the native
        front end of Session.tla with the outcomes read from the events)
        must accept every recorded session: a sample of the modelled modules,
        the library's own doctests, and the repository tests that drive the
        runner.
"""
import contextlib
import io
import os
import subprocess
import sys
import warnings
import zlib

from . import common, sessionlib, modlib

KINDS = ('pass', 'failout', 'failexc', 'failcompile', 'faildirective', 'skipall', 'skippart', 'expexc', 'comment', 'disabled', 'disabledfail', 'needell', 'latenote', 'latenotefail')
BOUNDS = {'quick': dict(n=3, limit=12000, cli=40), 'thorough': dict(n=4, limit=60000, cli=400)}
OPTS = {'none': '', 'skip': '+SKIP', 'noell': '-ELLIPSIS', 'req': '+REQUIRES(module:xdv_nope_q)'}
_J = {}


def _one(raw):
    case = sessionlib.decode(raw)
    if case['front'] != 'native':
        return None
    rot = (zlib.crc32(raw.encode()) + _J['seed']) % 100003
    kinds = case['mod']
    c = case['cmd']['c']
    # a fifth of the modules keeps all its doctests in ONE docstring (g:0, g:1, ...): selection and force-disabling are per doctest
    shared = rot % 5 == 0 and c != 'namedfunc' and len(kinds) >= 2
    name = (lambda i: 'g:%d' % i) if shared else (lambda i: 'f%d:0' % i)
    src = sessionlib.render_module(kinds, rot, layout='shared' if shared else ['google', 'freeform'][rot % 2])
    modname = 'xdvs_%d_%08x' % (os.getpid(), zlib.crc32(raw.encode()))
    path = os.path.join(_J['dir'], modname + '.py')
    with open(path, 'w') as f:
        f.write(src)
    command = {'all': 'all', 'list': 'list', 'named': name(case['cmd']['target'] - 1), 'namedfunc': 'f%d' % (case['cmd']['target'] - 1)}[c]
    verbose = rot % 4
    if c == 'list':
        verbose = max(1, verbose)       # the listing is ordinary (level 1) output; verbosity 0 means quiet
    style = ['auto', 'google', 'freeform'][rot % 3] if rot % 2 == 0 else ['auto', 'freeform'][rot % 2]
    if shared:
        style = ['auto', 'google'][rot % 2]
    config = {'default_runtime_state': {'none': {}, 'skip': {'SKIP': True}, 'noell': {'ELLIPSIS': False}, 'req': {'REQUIRES': {'module:xdv_nope_q'}}}[case['opt']]}
    bad = []
    try:
        with sessionlib.Env(1):
            res = modlib.run_native(path, command, verbose=verbose, style=style, config=config)
        if 'raised' in res:
            bad.append(('doctest_module', 'returns', res['raised']))
        elif c == 'list':
            for i in range(len(kinds)):
                if name(i) not in res['stdout']:
                    bad.append(('list_names[%s]' % name(i), 'listed', res['stdout'][-300:]))
        else:
            s = res['summary']
            got = (s.get('n_passed'), s.get('n_failed'), s.get('n_skipped'), s.get('n_total'))
            if got != case['tallies']:
                bad.append(('tallies(passed,failed,skipped,total)', case['tallies'], got))
            fnames = ['%s:%d' % (e.callname, e.num) for e in s.get('failed', [])]
            exp_failed = [name(i - 1) for i in case['failed']]
            if fnames != exp_failed:
                bad.append(('failed_list', exp_failed, fnames))
            # each gathered doctest ran exactly once, in order
            expT = []
            for i in sorted(case['verdict']):
                if case['opt'] not in ('skip', 'req'):
                    expT += sessionlib.kind_trace(kinds[i - 1], i - 1)
            if (res['T'] or []) != expT:       # T is None when the module was never imported (nothing ran)
                bad.append(('executed_statements', expT, res['T']))
        # exit status through the command line entry point
        if c != 'list':
            from xdoctest import __main__ as xmain
            argv = ['xdoctest', path, command, '--verbose', str(verbose), '--style', style]
            if OPTS[case['opt']]:
                argv += ['--options=' + OPTS[case['opt']]]
            old = sys.stdout, sys.stderr
            sys.stdout = sys.stderr = io.StringIO()
            try:
                with sessionlib.Env(1), warnings.catch_warnings():
                    warnings.simplefilter('ignore')
                    cwd = os.getcwd()
                    os.chdir(_J['dir'])
                    try:
                        code = xmain.main(argv)
                    except SystemExit as ex:
                        code = ex.code
                    except BaseException as ex:
                        code = 'raised %r' % (ex,)
                    finally:
                        os.chdir(cwd)
            finally:
                sys.stdout, sys.stderr = old
                sys.modules.pop(modname, None)
            # the property is about zero / non-zero of the PROCESS status: what main() returns goes to sys.exit, which keeps the low 8 bits
            status = (int(code) % 256) if isinstance(code, (int, bool)) else (0 if code is None else 1)
            if (status != 0) != (case['exit'] != 0):
                bad.append(('exit_status', 'non-zero' if case['exit'] else 'zero', code))
            if _J['cli'] and rot % _J['cli'] == 0:
                env = dict(os.environ, XDV_E='1')
                p = subprocess.run([common.PY, '-m', 'xdoctest'] + argv[1:], cwd=_J['dir'], env=env, stdout=subprocess.PIPE, stderr=subprocess.STDOUT, text=True)
                if (p.returncode != 0) != (case['exit'] != 0):
                    bad.append(('cli_exit_status', 'non-zero' if case['exit'] else 'zero', p.returncode))
                info_cli = True
    finally:
        os.unlink(path)
        sys.modules.pop(modname, None)
    info = {'key': (tuple(kinds), c, case['opt'])}
    if bad:
        info.update(bad=[(f, repr(a), repr(b)) for f, a, b in bad], text=src, case={k: case[k] for k in ('mod', 'opt', 'cmd', 'tallies', 'failed', 'exit')},
                    command=command)
    return info


def sig(info):
    return {'kind': 'native_runner', 'fields': ','.join(sorted({b[0].split('[')[0].split('(')[0] for b in info['bad']}))}


def many_failures_phase(out):
    """the exit status is a process status (8 bits): a module with exactly 256 failing doctests (and with 255, 257) must still exit non-zero"""
    d = common.scratch_dir('xdv-c10many')
    for n in (255, 256, 257):
        modname = 'xdvmany_%d_%d' % (os.getpid(), n)
        path = os.path.join(d, modname + '.py')
        with open(path, 'w') as f:
            f.write('def ok():\n    """\n    >>> 1 + 1\n    2\n    """\n')
            for i in range(n):
                f.write('\n\ndef bad%d():\n    """\n    >>> %d\n    -1\n    """\n' % (i, i))
        env = dict(os.environ, PYTHONPATH=os.pathsep.join([common.SRC] + ([os.environ['PYTHONPATH']] if os.environ.get('PYTHONPATH') else [])))
        p = subprocess.run([common.PY, '-m', 'xdoctest', path, 'all', '--verbose', '0'], cwd=d, env=env, stdout=subprocess.PIPE, stderr=subprocess.STDOUT, text=True)
        out.traces += 1
        out.evaluations += 1
        if p.returncode == 0:
            out.violation({'kind': 'native_runner', 'fields': 'cli_exit_status', 'failing_doctests': n},
                          {'module': '%d failing doctests and one passing' % n, 'exit_status': p.returncode, 'output_tail': p.stdout[-600:],
                           'explanation': 'the command exits 0 although doctests failed'})
    out.extra['many_failures_modules'] = [255, 256, 257]


def session_trace_phase(out, raws, tier):
    """code -> spec: sessions recorded from the real runner (probe, session part) must be behaviours of SessionTrace.tla.
    (a) a sample of the modelled modules replayed with the probe on (all commands, the command line entry point);
    (b) the repository's own doctests and the tests that drive the runner."""
    import random
    from . import tracelib, probe
    if not tracelib.probe_usable(out):
        return
    d = common.scratch_dir('xdv-c10tr')
    prefix = os.path.join(d, 'tr')
    sample = random.Random(common.seed() + 10).sample(raws, min(len(raws), 600 if tier == 'quick' else 6000))
    os.environ['XDOCTEST_VERIF_TRACE'] = prefix
    probe.install()
    cli = _J['cli']
    _J['cli'] = 0
    try:
        for raw in sample:
            _one(raw)
    finally:
        _J['cli'] = cli
        os.environ.pop('XDOCTEST_VERIF_TRACE', None)
    for f in (probe._out, probe._sess_out):
        if f[0] is not None:
            f[0].flush()
    sessions, _ = tracelib.load_sessions(prefix)          # (validation removes the scratch directories)
    tracelib.validate_sessions(out, prefix, 'modelled modules', minimum=len(sample) // 2)
    # the binding is not vacuous: a session whose tallies, selection or exit status were tampered with must be rejected
    import copy
    tampered = []
    for field, pick in (('nP', lambda e: e['e'] == 'Tally'), ('idxs', lambda e: e['e'] == 'Gather' and len(e['idxs']) >= 2), ('code', lambda e: e['e'] == 'MainExit')):
        for sess in sessions:
            hit = [n for n, e in enumerate(sess) if pick(e)]
            if hit:
                t = copy.deepcopy(sess)
                e = t[hit[0]]
                if field == 'nP':
                    e['nP'] += 1
                elif field == 'idxs':
                    e['idxs'] = e['idxs'][1:]
                else:
                    e['code'] = 1 - e['code']
                tampered.append((field, t))
                break
    if len(tampered) < 3:
        raise common.MachineryError('session traces: no session to tamper with for some field (%s)' % [f for f, _ in tampered])
    for field, t in tampered:
        tmp = common.Outcome(out.prop, out.tier)
        if tracelib.validate(tmp, [t], 'tampered ' + field, spec='SessionTrace') != 1:
            raise common.MachineryError('SessionTrace.tla accepted a session whose %s was tampered with' % field)
    out.extra['session_trace_tampering_rejected'] = [f for f, _ in tampered]
    d2 = common.scratch_dir('xdv-c10suite')
    prefix2 = os.path.join(d2, 'tr')
    log1 = tracelib.record_library_doctests(prefix2, tracelib.LIB_MODULES[tier])
    log2 = tracelib.record_pytest(prefix2, ['tests/test_runner.py', 'tests/test_core.py', 'tests/test_errors.py', 'tests/test_entry_point.py', 'tests/test_dynamic.py',
                                            'tests/test_notebook.py'] if tier == 'quick' else ['tests'])
    try:
        tracelib.validate_sessions(out, prefix2, 'repository suite', minimum=10)
    except common.MachineryError as ex:
        raise common.MachineryError('%s\n%s\n%s' % (ex, log1[-600:], log2[-600:]))


def run(tier):
    out = common.Outcome('C10', tier)
    b = BOUNDS[tier]
    out.rule = ('every module of <= %d doctests over 10 outcome kinds x commands {all, list, <name:num>, <name>} x default options {none, +SKIP, -ELLIPSIS} in '
                'Session.tla (native front end); replay sampled where stated' % b['n'])
    raws = sessionlib.run_tlc_cases(out, 'native<=%d' % b['n'], kinds=KINDS, maxdocs=b['n'], commands=('all', 'list', 'named', 'namedfunc'),
                                    fronts=('native',), opts=('none', 'skip', 'noell', 'req'))
    if b['limit'] and len(raws) > b['limit']:
        import random
        raws = random.Random(common.seed()).sample(raws, b['limit'])
        out.extra['replay_sampled'] = True
    _J['seed'] = common.seed()
    _J['dir'] = common.scratch_dir('xdv-c10')
    _J['cli'] = max(1, len(raws) // b['cli'])
    sys.path.insert(0, _J['dir'])
    try:
        infos = [i for i in common.parallel_map(_one, raws, chunk=20) if i is not None]
    finally:
        sys.path.remove(_J['dir'])
    for info in infos:
        out.traces += 1
        out.evaluations += 1
        out.count_nontrivial(info['key'])
        if 'bad' in info:
            out.violation(sig(info), {'module_source': info['text'], 'case': info['case'], 'command': info['command'], 'disagreements': info['bad']})
    session_trace_phase(out, raws, tier)
    many_failures_phase(out)
    common.cleanup_scratch()
    for dev in ('NoDisabledFilter', 'FailedNotRecorded', 'ExitOnlyIfTwoFail'):
        sessionlib.deviation_must_fail(out, dev, kinds=KINDS, maxdocs=2, commands=('all', 'named'), fronts=('native',))
    out.exhaustive = not out.extra.get('replay_sampled', False)
    out.assumptions = ['force-disabled = the five spellings valid in both front ends (DISABLE*, SCRIPT, UNSTABLE, FAILING, SLOW_DOCTEST)',
                       'each function holds one doctest, so <name> and <name:0> select the same doctest']
    return out.finish()


def replay(path):
    import json
    d = json.load(open(path))['detail']
    print(d['module_source'])
    print('case:', d['case'], 'command:', d['command'])
    print('disagreements:', d['disagreements'])
    return 0
