"""C17 - module name <-> path resolution agrees with Python's import system.

spec  : specs/ModPath.tla.  A directory tree below one search-path entry is
        built path by path (node states: nothing, module file, plain directory,
        regular package, package with __main__.py, and directory+file of the
        same name).  OpResolve transcribes the candidate search with the
        __init__ chain check, OpSplit the walk up while __init__.py exists,
        OpWalk the pruned os.walk of package_modpaths; DeclResolve is the
        interpreter's regular-package rule (package before module, every proper
        prefix a package), DeclSplit / DeclWalk the definitions.  Invariants:
        ResolveIsImport, RoundTrip, SplitIsDecl, WalkIsDecl over every tree of
        depth 2 over two names per level (149k trees) and a depth-3 family.
replay: trees are materialised; for every dotted name (present, absent,
        ...__main__) modname_to_modpath(sys_path=[root]) must equal the
        specification AND what importlib's FileFinder finds part by part
        (namespace portions count as nothing); every module path is converted
        back (modpath_to_modname, split_modpath); modules are imported by path
        (import_module_from_path: __name__, sys.path restored, also when the
        module raises); package_modpaths and the collector must list exactly
        the files of the package tree.
entries: specs/SearchPath.tla - a search path of two or three entries, each a
        tree as above (all 2 500 pairs of depth-2 trees over one name per level,
        a sample of the triples).  Operational: the first entry in which the
        whole dotted name resolves; declarative: the first entry that provides
        the top-level name decides (the interpreter).  MultiResolveIsImport
        with the named known deviation Shadowed (finding F24).  Every case is
        materialised: modname_to_modpath(sys_path=[e1, e2(, e3)]) against the
        specification and importlib's FileFinder over the entries.
"""
import importlib.machinery
import io
import os
import shutil
import sys
import warnings
import zlib

from . import common, tlaval

BOUNDS = {'quick': dict(limit2=2500, limit3=1500), 'thorough': dict(limit2=40000, limit3=None)}
_JOB = {}

DOC_MODULE = 'def f():\n    """\n    >>> 1 + 1\n    2\n    """\n\nX = 1\n'


def cfg(names, states, invariants, deviation=('Emit',)):
    lines = ['SPECIFICATION Spec', 'CONSTANTS', ' NamesAt <- %s' % names, ' StatesAt <- %s' % states,
             ' Deviation = {%s}' % ', '.join('"%s"' % d for d in deviation)]
    lines += ['INVARIANT %s' % i for i in invariants]
    lines += ['CHECK_DEADLOCK FALSE', '']
    return '\n'.join(lines)


INVS = ['ResolveIsImport', 'RoundTrip', 'SplitIsDecl', 'WalkIsDecl']


def materialise(tree, root, rot):
    bad_file = None
    files = []
    for p, s in sorted(tree.items()):
        d = os.path.join(root, *p)
        if s in ('dir', 'dirfile', 'pkg', 'pkgfile', 'pkgmain', 'pkgmainfile'):
            os.makedirs(d, exist_ok=True)
        if s in ('pkg', 'pkgfile', 'pkgmain', 'pkgmainfile'):
            with open(os.path.join(d, '__init__.py'), 'w') as f:
                f.write(DOC_MODULE)
        if s in ('pkgmain', 'pkgmainfile'):
            with open(os.path.join(d, '__main__.py'), 'w') as f:
                f.write(DOC_MODULE)
        if s in ('file', 'dirfile', 'pkgfile', 'pkgmainfile'):
            os.makedirs(os.path.dirname(d), exist_ok=True)
            with open(d + '.py', 'w') as f:
                f.write(DOC_MODULE)
            files.append(p)
    return files


def spec_path(root, res):
    kind, p = res
    if kind == 'none':
        return None
    if kind == 'pkg':
        return os.path.join(root, *p)
    if kind == 'main':
        return os.path.join(root, *p) + '.py'
    return os.path.join(root, *p) + '.py'


def finder_resolve(root, q):
    """what the interpreter's path-based finder locates, part by part; namespace portions = nothing"""
    search = [root]
    spec = None
    details = (importlib.machinery.SourceFileLoader, importlib.machinery.SOURCE_SUFFIXES)
    for k in range(len(q)):
        spec = None
        for d in search:
            spec = importlib.machinery.FileFinder(d, details).find_spec(q[k])
            if spec is not None:
                break
        if spec is None or spec.loader is None:
            return None
        if k < len(q) - 1:
            if not spec.submodule_search_locations:
                return None
            search = list(spec.submodule_search_locations)
    origin = spec.origin
    if os.path.basename(origin) == '__init__.py':
        return os.path.dirname(origin)
    return origin


def _purge_modules(names):
    for k in list(sys.modules):
        if k.split('.')[0] in names:
            del sys.modules[k]
    importlib.invalidate_caches()


def _one(raw):
    from xdoctest.utils import util_import
    from xdoctest import static_analysis, core
    tree, resolves, splits, walks = tlaval.parse_value(raw)
    rot = (zlib.crc32(raw.encode()) + _JOB['seed']) % 100003
    # the abstract names are written several ways: a module or package name may END in __init__ / __main__ without being one
    ren = {'b': ['b', 'test__init__', 'b', 'run__main__'][rot % 4], 'c': ['c', 'c__init__'][(rot // 4) % 2]}

    def rn(v):
        if isinstance(v, str):
            return ren.get(v, v)
        if isinstance(v, tuple):
            return tuple(rn(x) for x in v)
        if isinstance(v, list):
            return [rn(x) for x in v]
        if isinstance(v, (set, frozenset)):
            return frozenset(rn(x) for x in v)
        if isinstance(v, dict):
            return {rn(k): rn(x) for k, x in v.items()}
        return v
    tree, resolves, splits, walks = rn(tree), rn(resolves), rn(splits), rn(walks)
    tree = {tuple(k): v for k, v in (tree.items() if isinstance(tree, dict) else [])}
    root = os.path.join(_JOB['dir'], 't%d_%08x' % (os.getpid(), zlib.crc32(raw.encode())))
    os.makedirs(root)
    bad = []
    topnames = {c for p in tree for c in p} | {'zz'}     # a module below a plain directory is imported under its bare name
    _purge_modules(topnames)
    try:
        materialise(tree, root, rot)
        importlib.invalidate_caches()
        for q, res in resolves:
            q = tuple(q)
            name = '.'.join(q)
            exp = spec_path(root, res)
            # the search path entry as written by users: plain, with a trailing separator, with a '.' component
            sp = [root, root + os.sep, os.path.join(os.path.dirname(root), '.', os.path.basename(root)), root + os.sep + os.sep][(rot + len(q)) % 4]
            got = util_import.modname_to_modpath(name, sys_path=[sp])
            if got is not None:
                got = os.path.normpath(got)
            if got != exp:
                bad.append(('modname_to_modpath[%s]' % name, exp and os.path.relpath(exp, root), got and os.path.relpath(got, root)))
            oracle = finder_resolve(root, q)
            if oracle != exp:
                raise common.MachineryError('FileFinder disagrees with the specification for %s in %r: %r vs %r' % (name, tree, oracle, exp))
            if res[0] == 'pkg':
                got2 = util_import.modname_to_modpath(name, hide_init=False, sys_path=[root])
                if got2 != os.path.join(exp, '__init__.py'):
                    bad.append(('modname_to_modpath[%s,hide_init=False]' % name, os.path.relpath(exp, root) + '/__init__.py', got2 and os.path.relpath(got2, root)))
        for (kind, p), k in splits:
            p = tuple(p)
            path = os.path.join(root, *p) + ('' if kind == 'pkg' else '.py')
            expname = '.'.join(p[k:])
            expsplit = (os.path.join(root, *p[:k]) if k else root, os.path.join(*p[k:]) + ('' if kind == 'pkg' else '.py'))
            try:
                gotname = util_import.modpath_to_modname(path)
                gotsplit = util_import.split_modpath(path)
            except Exception as ex:
                bad.append(('modpath_to_modname[%s]' % '/'.join(p), expname, 'raised %r' % (ex,)))
                continue
            if gotname != expname:
                bad.append(('modpath_to_modname[%s]' % '/'.join(p), expname, gotname))
            if tuple(gotsplit) != expsplit:
                bad.append(('split_modpath[%s]' % '/'.join(p), tuple(os.path.relpath(x, root) for x in expsplit), tuple(os.path.relpath(x, root) if os.path.isabs(x) else x for x in gotsplit)))
            if os.path.join(*gotsplit) != path:
                bad.append(('split_rejoins[%s]' % '/'.join(p), path, os.path.join(*gotsplit)))
            if kind == 'pkg':
                gotname2 = util_import.modpath_to_modname(os.path.join(path, '__init__.py'))
                if gotname2 != expname:
                    bad.append(('modpath_to_modname[%s/__init__.py]' % '/'.join(p), expname, gotname2))
        # __main__.py and hide_main: inside a package the name / path of the package stands for it; a __main__.py in a plain
        # directory is just a module called __main__ (there is no package to fall back to)
        for (kind, p), k in splits:
            p = tuple(p)
            if kind == 'pkg' and tree.get(p) in ('pkgmain', 'pkgmainfile'):
                base = os.path.join(root, *p)
                mainp = os.path.join(base, '__main__.py')
                dotted = '.'.join(p[k:])
                sroot = os.path.join(root, *p[:k]) if k else root
                checks = [('modpath_to_modname[%s/__main__.py,hide_main]' % '/'.join(p), dotted, lambda: util_import.modpath_to_modname(mainp, hide_main=True)),
                          ('modpath_to_modname[%s/__main__.py]' % '/'.join(p), dotted + '.__main__', lambda: util_import.modpath_to_modname(mainp)),
                          ('normalize_modpath[%s/__main__.py,hide_main]' % '/'.join(p), base, lambda: util_import.normalize_modpath(mainp, hide_main=True)),
                          ('modname_to_modpath[%s.__main__,hide_main]' % dotted, base,
                           lambda: util_import.modname_to_modpath(dotted + '.__main__', hide_main=True, sys_path=[sroot]))]
                for label, expv, fn in checks:
                    try:
                        gotv = fn()
                    except Exception as ex:
                        gotv = 'raised %r' % (ex,)
                    if gotv != expv:
                        bad.append((label, expv, gotv))
        plain = sorted(p for p, st in tree.items() if st in ('dir', 'dirfile') and len(p) == 1)
        for p in plain[:1 + rot % 2]:
            base = os.path.join(root, *p)
            mainp = os.path.join(base, '__main__.py')
            with open(mainp, 'w') as f:
                f.write(DOC_MODULE)
            importlib.invalidate_caches()
            checks = [('modpath_to_modname[%s/__main__.py in a plain directory,hide_main]' % '/'.join(p), '__main__', lambda: util_import.modpath_to_modname(mainp, hide_main=True)),
                      ('modpath_to_modname[%s/__main__.py in a plain directory]' % '/'.join(p), '__main__', lambda: util_import.modpath_to_modname(mainp)),
                      ('normalize_modpath[%s/__main__.py in a plain directory,hide_main]' % '/'.join(p), mainp, lambda: util_import.normalize_modpath(mainp, hide_main=True)),
                      ('modname_to_modpath[__main__ in a plain directory,hide_main]', mainp, lambda: util_import.modname_to_modpath('__main__', hide_main=True, sys_path=[base])),
                      ('modname_to_modpath[__main__ in a plain directory]', mainp, lambda: util_import.modname_to_modpath('__main__', sys_path=[base]))]
            for label, expv, fn in checks:
                try:
                    gotv = fn()
                except Exception as ex:
                    gotv = 'raised %r' % (ex,)
                if gotv != expv:
                    bad.append((label, expv, gotv))
            os.unlink(mainp)
        # import by path: a sample of the module files, one of them failing at import time
        # (a module file shadowed by a package directory of the same name is not what its name imports)
        mods = sorted((tuple(p), k) for (kind, p), k in splits if kind == 'mod' and tree.get(tuple(p)) in ('file', 'dirfile'))
        if _JOB.get('collect'):
            mods = []                # (the package phase of C07 looks at walks and collection only; importing by path is C17/C12)
        for n, (p, k) in enumerate(mods[:3]):
            path = os.path.join(root, *p) + '.py'
            failing = (rot + n) % 3 == 0
            if failing:
                with open(path, 'w') as f:
                    f.write(['raise RuntimeError("import boom")\n',
                             'import sys\nsys.path.insert(0, "/xdv/leftover")\nraise RuntimeError("import boom")\n'][(rot + n) % 2])
            pristine = list(sys.path)
            pre = (rot // 2 + n) % 2 == 1
            if pre:
                # the directory that has to be on the search path is there already, in front (PYTHONPATH, an earlier sys.path.insert):
                # importing by path must not move or remove that entry
                sys.path.insert(0, os.path.join(root, *p[:k]) if k else root)
            before = list(sys.path)
            try:
                with warnings.catch_warnings():
                    warnings.simplefilter('ignore')
                    m = util_import.import_module_from_path(path)
                if failing:
                    bad.append(('import_by_path[%s]' % '/'.join(p), 'raises', 'returned %r' % (m,)))
                elif m.__name__ != '.'.join(p[k:]):
                    bad.append(('import_by_path_name[%s]' % '/'.join(p), '.'.join(p[k:]), m.__name__))
                elif os.path.realpath(getattr(m, '__file__', '') or '') != os.path.realpath(path):
                    bad.append(('import_by_path_file[%s]' % '/'.join(p), os.path.relpath(path, root), getattr(m, '__file__', None)))
            except Exception as ex:
                if not failing:
                    bad.append(('import_by_path[%s]' % '/'.join(p), 'module', 'raised %r' % (ex,)))
            now = [x for x in sys.path if x != '/xdv/leftover']       # what the imported module itself added is its own business
            if now != before:
                # finding F20: the search-path directory is on sys.path already AND the imported module itself inserts into sys.path:
                # the recovery of the context manager looks the directory up by value and removes the earlier, pre-existing entry
                dup_and_insert = pre and failing and (rot + n) % 2 == 1 and sorted(now) == sorted(before)
                name = 'sys_path_order_duplicate_root_and_module_insert' if dup_and_insert else 'sys_path_restored'
                bad.append(('%s[%s,%s]' % (name, '/'.join(p), 'failing' if failing else 'ok'), 'unchanged', 'entries moved' if sorted(now) == sorted(before)
                            else [x for x in now if x not in before] + ['-' + x for x in before if x not in now]))
            sys.path[:] = pristine
            _purge_modules(topnames)
            if failing:
                with open(path, 'w') as f:
                    f.write(DOC_MODULE)
        # import by path: packages by directory, by __init__.py and by their __main__.py
        pkgs = sorted((tuple(p), k) for (kind, p), k in splits if kind == 'pkg') if not _JOB.get('collect') else []
        for n, (p, k) in enumerate(pkgs[:2]):
            base = os.path.join(root, *p)
            name = '.'.join(p[k:])
            targets = [(base, name, os.path.join(base, '__init__.py')), (os.path.join(base, '__init__.py'), name, os.path.join(base, '__init__.py'))]
            if tree.get(p) in ('pkgmain', 'pkgmainfile'):
                targets.append((os.path.join(base, '__main__.py'), name + '.__main__', os.path.join(base, '__main__.py')))
            for tn, (path, expname, expfile) in enumerate(targets):
                pristine = list(sys.path)
                if (rot + n + tn) % 2:
                    sys.path.insert(0, os.path.join(root, *p[:k]) if k else root)
                before = list(sys.path)
                try:
                    with warnings.catch_warnings():
                        warnings.simplefilter('ignore')
                        m = util_import.import_module_from_path(path)
                    if m.__name__ != expname:
                        bad.append(('import_by_path_name[%s]' % os.path.relpath(path, root), expname, m.__name__))
                    elif os.path.realpath(getattr(m, '__file__', '') or '') != os.path.realpath(expfile):
                        bad.append(('import_by_path_file[%s]' % os.path.relpath(path, root), os.path.relpath(expfile, root), getattr(m, '__file__', None)))
                except Exception as ex:
                    bad.append(('import_by_path[%s]' % os.path.relpath(path, root), 'module', 'raised %r' % (ex,)))
                if list(sys.path) != before:
                    bad.append(('sys_path_restored[%s,ok]' % os.path.relpath(path, root), 'unchanged', 'entries moved or lost' if sorted(sys.path) == sorted(before)
                                else [x for x in sys.path if x not in before] + ['-' + x for x in before if x not in sys.path]))
                sys.path[:] = pristine
                _purge_modules(topnames)
        # package walks
        for p, entries in walks:
            p = tuple(p)
            exp = set()
            for kind, q in entries:
                q = tuple(q)
                base = os.path.join(root, *q)
                exp.add({'init': os.path.join(base, '__init__.py'), 'main': os.path.join(base, '__main__.py'), 'file': base + '.py'}[kind])
            got = list(static_analysis.package_modpaths(os.path.join(root, *p), with_pkg=True))
            if len(got) != len(set(got)):
                bad.append(('package_modpaths_once[%s]' % '/'.join(p), 'each once', sorted(os.path.relpath(x, root) for x in got)))
            if set(got) != exp:
                bad.append(('package_modpaths[%s]' % '/'.join(p), sorted(os.path.relpath(x, root) for x in exp), sorted(os.path.relpath(x, root) for x in got)))
            if _JOB.get('collect'):
                with warnings.catch_warnings():
                    warnings.simplefilter('ignore')
                    old = sys.stdout
                    sys.stdout = io.StringIO()
                    try:
                        exs = list(core.parse_doctestables(os.path.join(root, *p), analysis='static'))
                    finally:
                        sys.stdout = old
                gotmods = sorted({os.path.relpath(e.modpath, root) for e in exs})
                expmods = sorted({os.path.relpath(x, root) if os.path.basename(x) != '__init__.py' else os.path.relpath(os.path.dirname(x), root) for x in exp})
                gotmods = sorted({m[:-len('/__init__.py')] if m.endswith('/__init__.py') else m for m in gotmods})
                if gotmods != expmods:
                    bad.append(('collected_modules[%s]' % '/'.join(p), expmods, gotmods))
                _purge_modules(topnames)
    finally:
        shutil.rmtree(root, ignore_errors=True)
    info = {'key': str(hash(raw)), 'nq': len(resolves), 'nwalk': len(walks)}
    if bad:
        info.update(bad=[(f, repr(a), repr(b)) for f, a, b in bad[:12]], tree={'/'.join(k): v for k, v in tree.items()})
    return info


def _space(out, label, names, states, limit, collect, prop):
    res = common.run_tlc('MC_ModPath', cfg(names, states, INVS), printed=True, timeout=2400)
    common.tlc_must_pass(res, 'ModPath ' + label)
    out.add_tlc(res, 'exhaustive:' + label)
    if res.violated:
        raise common.MachineryError('spec-level invariant %s violated on the unchanged spec (%s):\n%s' % (res.violated, label, res.stdout[-3000:]))
    raws = sorted(common.iter_printed(res))
    if limit and len(raws) > limit:
        import random
        raws = random.Random(common.seed()).sample(raws, limit)
        out.extra['replay_sampled'] = True
    _JOB['seed'] = common.seed()
    _JOB['dir'] = common.scratch_dir('xdv-modpath')
    _JOB['collect'] = collect
    infos = common.parallel_map(_one, raws, chunk=20)
    nq = nw = 0
    for info in infos:
        out.traces += 1
        out.count_nontrivial(info['key'])
        out.evaluations += info['nq']
        nq += info['nq']
        nw += info['nwalk']
        if 'bad' in info:
            fields = sorted({b[0].split('[')[0] for b in info['bad']})
            out.violation({'kind': 'modpath_replay', 'fields': ','.join(fields)}, {'tree': info['tree'], 'disagreements': info['bad']})
    out.extra['name_queries'] = out.extra.get('name_queries', 0) + nq
    out.extra['package_walks'] = out.extra.get('package_walks', 0) + nw
    common.cleanup_scratch()


def finder_resolve_multi(roots, q):
    """the interpreter's finder over several search path entries: the first entry that provides the top-level name as a regular
    package or a module decides (namespace portions do not); the rest is searched inside that package only"""
    details = (importlib.machinery.SourceFileLoader, importlib.machinery.SOURCE_SUFFIXES)
    for i, root in enumerate(roots, 1):
        spec = importlib.machinery.FileFinder(root, details).find_spec(q[0])
        if spec is not None and spec.loader is not None:
            return i, finder_resolve(root, q)
    return 0, None


def _one_multi(raw):
    from xdoctest.utils import util_import
    trees, results = tlaval.parse_value(raw)
    trees = [{tuple(k): v for k, v in (t.items() if isinstance(t, dict) else [])} for t in trees]
    rot = (zlib.crc32(raw.encode()) + _JOB['seed']) % 100003
    base = os.path.join(_JOB['dir'], 'm%d_%08x' % (os.getpid(), zlib.crc32(raw.encode())))
    roots = [os.path.join(base, 'entry%d' % (i + 1)) for i in range(len(trees))]
    bad = []
    known = []
    try:
        for t, r in zip(trees, roots):
            os.makedirs(r)
            materialise(t, r, rot)
        importlib.invalidate_caches()
        for q, op, decl, shadowed in results:
            q = tuple(q)
            name = '.'.join(q)
            exp_op = spec_path(roots[op[0] - 1], op[1]) if op[0] else None
            exp_decl = spec_path(roots[decl[0] - 1], decl[1]) if decl[0] else None
            oi, oracle = finder_resolve_multi(roots, q)
            if oracle != exp_decl:
                raise common.MachineryError('the interpreter\'s finder disagrees with the specification for %s over %r: %r vs %r' % (name, trees, oracle, exp_decl))
            got = util_import.modname_to_modpath(name, sys_path=list(roots))
            if got is not None:
                got = os.path.normpath(got)
            rel = lambda x: x and os.path.relpath(x, base)
            if got != exp_decl:
                if shadowed and got == exp_op:
                    known.append(('modname_to_modpath_shadowed_by_earlier_entry[%s]' % name, rel(exp_decl), rel(got)))
                else:
                    bad.append(('modname_to_modpath_over_entries[%s]' % name, rel(exp_decl), rel(got)))
    finally:
        shutil.rmtree(base, ignore_errors=True)
    info = {'key': str(hash(raw)), 'nq': len(results)}
    if bad:
        info.update(bad=[(f, repr(a), repr(b)) for f, a, b in bad[:12]], tree=[{'/'.join(k): v for k, v in t.items()} for t in trees])
    elif known:
        info.update(known=[(f, repr(a), repr(b)) for f, a, b in known[:12]], tree=[{'/'.join(k): v for k, v in t.items()} for t in trees])
    return info


MULTI_INVS = ['MultiResolveIsImport', 'FoundIsThere']


def multi_cfg(states, nroots, invariants, deviation=('Emit',)):
    lines = ['SPECIFICATION MSpec', 'CONSTANTS', ' NamesAt <- NN', ' StatesAt <- %s' % states, ' NRoots = %d' % nroots,
             ' Deviation = {%s}' % ', '.join('"%s"' % d for d in deviation)]
    lines += ['INVARIANT %s' % i for i in invariants]
    lines += ['CHECK_DEADLOCK FALSE', '']
    return '\n'.join(lines)


def multi_phase(out, tier):
    """specs/SearchPath.tla: a search path of two (three) entries, every combination of trees; modname_to_modpath(sys_path=[...]) against
    the interpreter's rule (first entry that provides the top-level name decides)"""
    spaces = [('two entries', 'SS', 2, None)] + ([('three entries', 'SS3', 3, 30000)] if tier == 'thorough' else [('three entries', 'SS3', 3, 1500)])
    for label, states, nroots, limit in spaces:
        res = common.run_tlc('MC_SearchPath', multi_cfg(states, nroots, MULTI_INVS), printed=True, timeout=1800)
        common.tlc_must_pass(res, 'SearchPath ' + label)
        out.add_tlc(res, 'exhaustive:search path, ' + label)
        if res.violated:
            raise common.MachineryError('spec-level invariant %s violated on the unchanged spec (SearchPath %s):\n%s' % (res.violated, label, res.stdout[-3000:]))
        raws = sorted(common.iter_printed(res))
        if limit and len(raws) > limit:
            import random
            raws = random.Random(common.seed()).sample(raws, limit)
            out.extra['replay_sampled'] = True
        _JOB['seed'] = common.seed()
        _JOB['dir'] = common.scratch_dir('xdv-searchpath')
        infos = common.parallel_map(_one_multi, raws, chunk=20)
        for info in infos:
            out.traces += 1
            out.count_nontrivial(info['key'])
            out.evaluations += info['nq']
            out.extra['search_path_queries'] = out.extra.get('search_path_queries', 0) + info['nq']
            if 'bad' in info:
                out.violation({'kind': 'search_path_replay', 'fields': ','.join(sorted({b[0].split('[')[0] for b in info['bad']}))},
                              {'trees_in_search_order': info['tree'], 'disagreements': info['bad']})
            elif 'known' in info:
                out.violation({'kind': 'search_path_replay', 'fields': 'modname_to_modpath_shadowed_by_earlier_entry'},
                              {'trees_in_search_order': info['tree'], 'disagreements': info['known']})
        common.cleanup_scratch()
    # vacuity: the exemption for the known deviation is reachable, and a wrong search order is rejected
    res = common.run_tlc('MC_SearchPath', multi_cfg('SS', 2, ['NeverShadowed'], deviation=()), timeout=600)
    common.cleanup_scratch()
    if not res.violated:
        raise common.MachineryError('vacuity control: no shadowed name in the two-entry space')
    res = common.run_tlc('MC_SearchPath', multi_cfg('SS', 2, MULTI_INVS, deviation=('PackagesFirst',)), timeout=600)
    common.cleanup_scratch()
    if not res.violated:
        raise common.MachineryError('vacuity control: deviation PackagesFirst does not violate MultiResolveIsImport')
    out.extra.setdefault('deviations_rejected', {})['PackagesFirst'] = res.violated


def package_phase(out, tier):
    """used by C07: package trees of depth 3 (a package below a plain directory below a package)"""
    _space(out, 'packages depth 3', 'N3', 'S3', BOUNDS[tier]['limit3'], True, 'C07')
    res = common.run_tlc('MC_ModPath', cfg('N3', 'S3', INVS, deviation=('NoPrune',)), timeout=900)
    common.cleanup_scratch()
    if not res.violated:
        raise common.MachineryError('vacuity control: deviation NoPrune does not violate WalkIsDecl')
    out.extra.setdefault('deviations_rejected', {})['NoPrune'] = res.violated


def run(tier):
    out = common.Outcome('C17', tier)
    b = BOUNDS[tier]
    out.rule = ('every directory tree of depth 2 over two names per level x 8 node states (149k trees, model-checked; replay sampled where stated) and the '
                'depth-3 family N3/S3; every dotted name of length <= depth over the names, an absent name and __main__')
    _space(out, 'trees depth 2', 'N2', 'S2', b['limit2'], False, 'C17')
    _space(out, 'trees depth 3', 'N3', 'S3', b['limit3'], False, 'C17')
    multi_phase(out, tier)
    for dev in ('NoIsValid', 'FileBeforePackage'):
        res = common.run_tlc('MC_ModPath', cfg('N2', 'S2', INVS, deviation=(dev,)), timeout=900)
        common.cleanup_scratch()
        if not res.violated:
            raise common.MachineryError('vacuity control: deviation %s does not violate any invariant' % dev)
        out.extra.setdefault('deviations_rejected', {})[dev] = res.violated
    out.exhaustive = not out.extra.get('replay_sampled', False)
    out.assumptions = ['"what the interpreter would import" is regular-package semantics; namespace-package portions (directories without __init__.py) '
                       'count as nothing, which the FileFinder oracle confirms case by case',
                       'names never use __init__ as a component; __main__ is queried']
    return out.finish()


def replay(path):
    import json
    d = json.load(open(path))['detail']
    print('tree:', d['tree'])
    print('disagreements:', d['disagreements'])
    return 0
