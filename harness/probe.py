"""Run-time probe: records one event per linearisation point of DocTest.run.

Nothing in /repo is patched: when the environment variable XDOCTEST_VERIF_TRACE
names a file, `install()` wraps a fixed list of xdoctest functions and appends
one JSON object per event to `<file>.<pid>`.  If a wrap target does not exist
the probe raises - it never degrades silently.

Events of one run carry the same run id; runs nest (doctests that run doctests),
the harness projects the log onto one trace per run id.
"""
import json
import os
import sys
import threading

GUARD = 'XDOCTEST_VERIF_TRACE'
_state = threading.local()
_installed = [False]
_out = [None]
_out_key = [None]
_seq = [0]
_runctr = [0]


def _stack():
    if not hasattr(_state, 'stack'):
        _state.stack = []
    return _state.stack


def _emit(ev, **fields):
    st = _stack()
    if not st or not os.environ.get(GUARD):       # recording is off unless the guard names a file (also after an in-process install)
        return
    if _out[0] is None or _out_key[0] != (os.environ[GUARD], os.getpid()):
        _out_key[0] = (os.environ[GUARD], os.getpid())
        _out[0] = open('%s.%d' % _out_key[0], 'a')
    _seq[0] += 1
    rec = {'e': ev, 'run': st[-1]['id'], 'seq': _seq[0]}
    rec.update(fields)
    _out[0].write(json.dumps(rec) + '\n')
    _out[0].flush()


def _from_run(depth=2):
    """is the wrapped function being called directly by DocTest.run of the innermost recorded run?"""
    try:
        f = sys._getframe(depth)
    except ValueError:
        return False
    st = _stack()
    return bool(st) and f.f_code.co_name == 'run' and f.f_code.co_filename.endswith('doctest_example.py') and f.f_locals.get('self') is st[-1]['dt']


def missing_targets():
    """names of wrap targets that do not exist in the xdoctest under test (a refactoring may have renamed a private function):
    the trace phases are then skipped, visibly (evidence), instead of failing - the replay phases do not depend on the probe"""
    import xdoctest
    from xdoctest import doctest_example, doctest_part, directive, checker, runner, core
    from xdoctest import __main__ as xmain
    from xdoctest.utils import util_stream
    DocTest, Part = doctest_example.DocTest, doctest_part.DoctestPart
    targets = [(DocTest, 'run'), (DocTest, '_import_module'), (DocTest, '_post_run'), (DocTest, '_parse'), (Part, 'has_any_code'), (Part, 'compilable_source'),
               (Part, 'check'), (directive.RuntimeState, 'update'), (checker, 'check_exception'), (util_stream.CaptureStdout, '__enter__'),
               (util_stream.CaptureStdout, '__exit__'), (runner, 'doctest_module'), (runner, '_run_examples'), (runner, '_convert_to_test_module'),
               (runner, '_parse_commandline'), (core, 'parse_doctestables'), (xmain, 'main'), (xdoctest, 'doctest_module')]
    return ['%s.%s' % (getattr(o, '__name__', o), n) for o, n in targets if not hasattr(o, n)]


def install():
    if _installed[0]:
        return
    _installed[0] = True          # set first: importing xdoctest below may re-enter through the sitecustomize hook
    from xdoctest import doctest_example, doctest_part, directive, checker
    from xdoctest.utils import util_stream
    DocTest = doctest_example.DocTest
    Part = doctest_part.DoctestPart
    targets = [(DocTest, 'run'), (DocTest, '_import_module'), (DocTest, '_post_run'), (Part, 'has_any_code'), (Part, 'compilable_source'),
               (Part, 'check'), (directive.RuntimeState, 'update'), (checker, 'check_exception'),
               (util_stream.CaptureStdout, '__enter__'), (util_stream.CaptureStdout, '__exit__')]
    for obj, name in targets:
        if not hasattr(obj, name):
            raise RuntimeError('probe: wrap target %r.%s does not exist' % (obj, name))

    orig_run = DocTest.run

    def run(self, *a, **kw):
        _runctr[0] += 1
        st = _stack()
        st.append({'id': '%d-%d' % (os.getpid(), _runctr[0]), 'dt': self, 'part': None})
        self._parse()
        on_error = kw.get('on_error', a[1] if len(a) > 1 else None)
        on_error = self.config.getvalue('on_error', on_error)
        _emit('RunEnter', name=str(getattr(self, 'node', '?'))[-80:], nparts=len(self._parts), on_error=str(on_error), mode=str(self.mode), stdout_id=id(sys.stdout))
        kind, exc = 'return', 'none'
        try:
            return orig_run(self, *a, **kw)
        except BaseException as ex:
            kind, exc = 'raise', type(ex).__name__
            raise
        finally:
            _emit('RunExit', kind=kind, exc=exc, ns_empty=len(self.global_namespace) == 0, nparts=len(self._parts),
                  nskipped=len(self._skipped_parts), nlogged=len(self.logged_stdout), has_exc=self.exc_info is not None)
            st.pop()
    DocTest.run = run

    orig_update = directive.RuntimeState.update

    def update(self, directives):
        ok = 'true'
        try:
            return orig_update(self, directives)
        except BaseException:
            ok = 'false'
            raise
        finally:
            st = _stack()
            if st and _from_run():
                dt = st[-1]['dt']
                # which part: the one whose directive list this is
                px = -1
                for i, p in enumerate(dt._parts):
                    if p._directives is directives or (p._directives is None and False):
                        px = i
                        break
                if px < 0:
                    px = st[-1].get('next_px', 0)
                st[-1]['next_px'] = px + 1
                st[-1]['px'] = px
                part = dt._parts[px] if 0 <= px < len(dt._parts) else None
                ds = list(directives or [])
                _emit('Update', px=px, ok=ok, ndir=len(ds), inline=bool(ds and ds[0].inline),
                      skip=bool(self['SKIP']), nreq=len(self['REQUIRES']), gskip=bool(self._global_state['SKIP']),
                      gnreq=len(self._global_state['REQUIRES']), noverlay=len(self._inline_state),
                      haswant=bool(part is not None and part.want), ignore_want=bool(self['IGNORE_WANT']))
    directive.RuntimeState.update = update

    orig_hac = Part.has_any_code

    def has_any_code(self):
        res = orig_hac(self)
        if _from_run():
            _emit('HasCode', px=_stack()[-1].get('px', -1), res=bool(res))
        return res
    Part.has_any_code = has_any_code

    orig_imp = DocTest._import_module

    def _import_module(self):
        ok = 'true'
        try:
            return orig_imp(self)
        except BaseException:
            ok = 'false'
            raise
        finally:
            if _from_run():
                _emit('Import', ok=ok)
    DocTest._import_module = _import_module

    orig_cs = Part.compilable_source

    def compilable_source(self):
        if _from_run():
            _emit('Compile', px=_stack()[-1].get('px', -1), mode=str(self.compile_mode))
        return orig_cs(self)
    Part.compilable_source = compilable_source

    orig_enter = util_stream.CaptureStdout.__enter__
    orig_exit = util_stream.CaptureStdout.__exit__

    def cap_enter(self):
        r = orig_enter(self)
        if _from_run():
            _emit('CapEnter', px=_stack()[-1].get('px', -1), swapped=sys.stdout is not self.orig_stdout)
        return r

    def cap_exit(self, et, ev, tb):
        internal = False
        try:
            return orig_exit(self, et, ev, tb)
        except BaseException:
            internal = True                     # the capture's own bookkeeping raised (e.g. the doctest closed the stream)
            raise
        finally:
            if _from_run():
                _emit('CapExit', px=_stack()[-1].get('px', -1), exc=et.__name__ if et else 'none', restored=sys.stdout is self.orig_stdout,
                      base=bool(et is not None and not issubclass(et, Exception)), internal=internal)
    util_stream.CaptureStdout.__enter__ = cap_enter
    util_stream.CaptureStdout.__exit__ = cap_exit

    orig_check = Part.check

    def check(self, got_stdout, got_eval=None, runstate=None, unmatched=None, **kw):
        ok = 'true'
        try:
            if got_eval is None and 'got_eval' not in kw:
                from xdoctest import constants
                got_eval = constants.NOT_EVALED
            return orig_check(self, got_stdout, got_eval, runstate, unmatched, **kw)
        except BaseException as ex:
            ok = type(ex).__name__
            raise
        finally:
            if _from_run():
                _emit('Check', px=_stack()[-1].get('px', -1), nun=len(unmatched or []), ok=ok)
    Part.check = check

    orig_ce = checker.check_exception

    def check_exception(exc_got, want, runstate=None):
        ok = 'true'
        try:
            r = orig_ce(exc_got, want, runstate)
            ok = 'true' if r else 'false'
            return r
        except BaseException as ex:
            ok = 'raise:' + type(ex).__name__
            raise
        finally:
            if _from_run():
                _emit('ExcCheck', px=_stack()[-1].get('px', -1), ok=ok)
    checker.check_exception = check_exception

    orig_post = DocTest._post_run

    def _post_run(self, verbose):
        s = orig_post(self, verbose)
        if _from_run():
            _emit('PostRun', passed=bool(s['passed']), failed=bool(s['failed']), skipped=bool(s['skipped']), nparts=len(self._parts),
                  nskipped=len(self._skipped_parts), nlogged=len(self.logged_stdout), nun=len(self._unmatched_stdout),
                  failed_px=(-2 if self.failed_part == '<IMPORT>' else (self._parts.index(self.failed_part) if self.failed_part in self._parts else -1)))
        return s
    DocTest._post_run = _post_run
    _install_session(DocTest)
    _installed[0] = True


# ---------------------------------------------------------------------------------------------------------------------
# Session events (specs/SessionTrace.tla): one native-runner session = one call of runner.doctest_module.
# Written to `<file>-sess.<pid>`; sessions nest (a doctest may itself call doctest_module), every event carries its session id.
_sess_out = [None]
_sess_key = [None]
_sess_seq = [0]
_sess_ctr = [0]
_last_main_session = [None]


def _sessions():
    if not hasattr(_state, 'sessions'):
        _state.sessions = []
    return _state.sessions


def _semit(sess, ev, **fields):
    if not os.environ.get(GUARD):
        return
    if _sess_out[0] is None or _sess_key[0] != (os.environ[GUARD], os.getpid()):
        _sess_key[0] = (os.environ[GUARD], os.getpid())
        _sess_out[0] = open('%s-sess.%d' % _sess_key[0], 'a')
    _sess_seq[0] += 1
    rec = {'e': ev, 'sess': sess['id'], 'seq': _sess_seq[0]}
    rec.update(fields)
    _sess_out[0].write(json.dumps(rec) + '\n')
    _sess_out[0].flush()


def _idx(sess, example):
    for i, e in enumerate(sess['collected']):
        if e is example:
            return i + 1
    return 0                                   # not one of the collected doctests (zero-argument fallback)


def _install_session(DocTest):
    import xdoctest
    from xdoctest import runner, core
    from xdoctest import __main__ as xmain
    for obj, name in [(runner, 'doctest_module'), (runner, '_run_examples'), (runner, '_convert_to_test_module'), (runner, '_parse_commandline'),
                      (core, 'parse_doctestables'), (xmain, 'main'), (xdoctest, 'doctest_module')]:
        if not hasattr(obj, name):
            raise RuntimeError('probe: wrap target %r.%s does not exist' % (obj, name))

    orig_dm = runner.doctest_module

    def doctest_module(module_identifier=None, *a, **kw):
        if module_identifier is None:
            # the original looks at its caller's frame; keep that meaning although this wrapper sits in between
            g = sys._getframe(1).f_globals
            module_identifier = g['__file__'] if '__file__' in g else sys.modules[g['__name__']]
        _sess_ctr[0] += 1
        sess = {'id': 'S%d-%d' % (os.getpid(), _sess_ctr[0]), 'phase': 'enter', 'collected': [], 'cmd': None}
        _sessions().append(sess)
        _semit(sess, 'SessEnter')
        kind, exc, action, nfailed = 'return', 'none', 'none', -1
        try:
            res = orig_dm(module_identifier, *a, **kw)
            if isinstance(res, dict):
                action = str(res.get('action', 'none'))
                nfailed = int(res.get('n_failed', -1))
            return res
        except BaseException as ex:
            kind, exc = 'raise', type(ex).__name__
            raise
        finally:
            _semit(sess, 'SessExit', kind=kind, exc=exc, action=action, nfailed=nfailed)
            _sessions().pop()
            _last_main_session[0] = sess
    runner.doctest_module = doctest_module
    xdoctest.doctest_module = doctest_module

    orig_pc = runner._parse_commandline

    def _parse_commandline(*a, **kw):
        res = orig_pc(*a, **kw)
        ss = _sessions()
        if ss and ss[-1]['phase'] == 'enter' and sys._getframe(1).f_code.co_name == 'doctest_module':
            command = res[0]
            ss[-1]['cmd'] = command
            ss[-1]['phase'] = 'collect'
            _semit(ss[-1], 'Command', cmd=('none' if command is None else command if command in ('all', 'list', 'dump') else 'named'))
        return res
    runner._parse_commandline = _parse_commandline

    orig_pd = core.parse_doctestables

    def parse_doctestables(*a, **kw):
        ss = _sessions()
        mine = bool(ss) and ss[-1]['phase'] == 'collect' and sys._getframe(1).f_code.co_name == 'doctest_module'
        if not mine:
            yield from orig_pd(*a, **kw)
            return
        sess = ss[-1]
        sess['phase'] = 'collecting'
        for example in orig_pd(*a, **kw):
            sess['collected'].append(example)
            cmd = sess['cmd']
            _semit(sess, 'Collect', i=len(sess['collected']), disabled=bool(example.is_disabled()),
                   named=bool(cmd is not None and cmd in example.valid_testnames))
            yield example
        sess['phase'] = 'collected'
    core.parse_doctestables = parse_doctestables

    orig_re = runner._run_examples

    def _run_examples(enabled_examples, *a, **kw):
        ss = _sessions()
        mine = bool(ss) and ss[-1]['phase'] == 'collected' and sys._getframe(1).f_code.co_name == 'doctest_module'
        if not mine:
            return orig_re(enabled_examples, *a, **kw)
        sess = ss[-1]
        sess['phase'] = 'running'
        _semit(sess, 'Gather', idxs=[_idx(sess, e) for e in enabled_examples])
        res = None
        try:
            res = orig_re(enabled_examples, *a, **kw)
            return res
        finally:
            sess['phase'] = 'ran'
            if res is not None:
                _semit(sess, 'Tally', nP=int(res['n_passed']), nF=int(res['n_failed']), nS=int(res['n_skipped']), nT=int(res['n_total']),
                       failed=[_idx(sess, e) for e in res['failed']])
    runner._run_examples = _run_examples

    orig_cv = runner._convert_to_test_module

    def _convert_to_test_module(enabled_examples, *a, **kw):
        ss = _sessions()
        if ss and ss[-1]['phase'] == 'collected' and sys._getframe(1).f_code.co_name == 'doctest_module':
            ss[-1]['phase'] = 'ran'
            _semit(ss[-1], 'Dump', idxs=[_idx(ss[-1], e) for e in enabled_examples])
        return orig_cv(enabled_examples, *a, **kw)
    runner._convert_to_test_module = _convert_to_test_module

    # the per-doctest outcome as the runner sees it: DocTest.run called from the loop of _run_examples
    inner_run = DocTest.run

    def run(self, *a, **kw):
        ss = _sessions()
        f = sys._getframe(1)
        mine = bool(ss) and ss[-1]['phase'] == 'running' and f.f_code.co_name == '_run_examples' and f.f_code.co_filename.endswith('runner.py')
        if not mine:
            return inner_run(self, *a, **kw)
        sess = ss[-1]
        outcome = 'none'
        try:
            summ = inner_run(self, *a, **kw)
            outcome = 'skipped' if summ['skipped'] else 'passed' if summ['passed'] else 'failed'
            if bool(summ['passed']) + bool(summ['failed']) + bool(summ['skipped']) != 1:
                outcome = 'inconsistent'
            return summ
        except BaseException as ex:
            outcome = 'raise:' + ('KeyboardInterrupt' if isinstance(ex, KeyboardInterrupt) else 'Exception' if isinstance(ex, Exception) else 'Base')
            raise
        finally:
            sess['phase'] = 'running'
            _semit(sess, 'Run', i=_idx(sess, self), outcome=outcome)
    DocTest.run = run

    orig_main = xmain.main

    def main(*a, **kw):
        _last_main_session[0] = None
        depth = len(_sessions())
        code = orig_main(*a, **kw)
        sess = _last_main_session[0]
        if sess is not None and len(_sessions()) == depth:
            _semit(sess, 'MainExit', code=(int(code) if isinstance(code, (int, bool)) else -1))
        return code
    xmain.main = main


def maybe_install():
    if os.environ.get(GUARD):
        install()


# pytest plugin entry (``-p harness.probe``) and plain import both install when the guard is set
maybe_install()
