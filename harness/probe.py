"""Run-time probe: records one event per linearisation point of DocTest.run.

Nothing in /repo is patched: when the environment variable XDOCTEST_VERIF_TRACE
names a file, `install()` wraps a fixed list of xdoctest functions and appends
one JSON object per event to `<file>.<pid>`.  If a wrap target does not exist
the probe raises - it never degrades silently.

Events of one run carry the same run id; runs nest (doctests that run doctests),
the harness projects the log onto one trace per run id.
"""
import json
import os
import sys
import threading

GUARD = 'XDOCTEST_VERIF_TRACE'
_state = threading.local()
_installed = [False]
_out = [None]
_seq = [0]
_runctr = [0]


def _stack():
    if not hasattr(_state, 'stack'):
        _state.stack = []
    return _state.stack


def _emit(ev, **fields):
    st = _stack()
    if not st:
        return
    if _out[0] is None:
        _out[0] = open('%s.%d' % (os.environ[GUARD], os.getpid()), 'a')
    _seq[0] += 1
    rec = {'e': ev, 'run': st[-1]['id'], 'seq': _seq[0]}
    rec.update(fields)
    _out[0].write(json.dumps(rec) + '\n')
    _out[0].flush()


def _from_run(depth=2):
    """is the wrapped function being called directly by DocTest.run of the innermost recorded run?"""
    try:
        f = sys._getframe(depth)
    except ValueError:
        return False
    st = _stack()
    return bool(st) and f.f_code.co_name == 'run' and f.f_code.co_filename.endswith('doctest_example.py') and f.f_locals.get('self') is st[-1]['dt']


def install():
    if _installed[0]:
        return
    _installed[0] = True          # set first: importing xdoctest below may re-enter through the sitecustomize hook
    from xdoctest import doctest_example, doctest_part, directive, checker
    from xdoctest.utils import util_stream
    DocTest = doctest_example.DocTest
    Part = doctest_part.DoctestPart
    targets = [(DocTest, 'run'), (DocTest, '_import_module'), (DocTest, '_post_run'), (Part, 'has_any_code'), (Part, 'compilable_source'),
               (Part, 'check'), (directive.RuntimeState, 'update'), (checker, 'check_exception'),
               (util_stream.CaptureStdout, '__enter__'), (util_stream.CaptureStdout, '__exit__')]
    for obj, name in targets:
        if not hasattr(obj, name):
            raise RuntimeError('probe: wrap target %r.%s does not exist' % (obj, name))

    orig_run = DocTest.run

    def run(self, *a, **kw):
        _runctr[0] += 1
        st = _stack()
        st.append({'id': '%d-%d' % (os.getpid(), _runctr[0]), 'dt': self, 'part': None})
        self._parse()
        on_error = kw.get('on_error', a[1] if len(a) > 1 else None)
        on_error = self.config.getvalue('on_error', on_error)
        _emit('RunEnter', name=str(getattr(self, 'node', '?'))[-80:], nparts=len(self._parts), on_error=str(on_error), mode=str(self.mode), stdout_id=id(sys.stdout))
        kind, exc = 'return', 'none'
        try:
            return orig_run(self, *a, **kw)
        except BaseException as ex:
            kind, exc = 'raise', type(ex).__name__
            raise
        finally:
            _emit('RunExit', kind=kind, exc=exc, ns_empty=len(self.global_namespace) == 0, nparts=len(self._parts),
                  nskipped=len(self._skipped_parts), nlogged=len(self.logged_stdout), has_exc=self.exc_info is not None)
            st.pop()
    DocTest.run = run

    orig_update = directive.RuntimeState.update

    def update(self, directives):
        ok = 'true'
        try:
            return orig_update(self, directives)
        except BaseException:
            ok = 'false'
            raise
        finally:
            st = _stack()
            if st and _from_run():
                dt = st[-1]['dt']
                # which part: the one whose directive list this is
                px = -1
                for i, p in enumerate(dt._parts):
                    if p._directives is directives or (p._directives is None and False):
                        px = i
                        break
                if px < 0:
                    px = st[-1].get('next_px', 0)
                st[-1]['next_px'] = px + 1
                st[-1]['px'] = px
                part = dt._parts[px] if 0 <= px < len(dt._parts) else None
                ds = list(directives or [])
                _emit('Update', px=px, ok=ok, ndir=len(ds), inline=bool(ds and ds[0].inline),
                      skip=bool(self['SKIP']), nreq=len(self['REQUIRES']), gskip=bool(self._global_state['SKIP']),
                      gnreq=len(self._global_state['REQUIRES']), noverlay=len(self._inline_state),
                      haswant=bool(part is not None and part.want), ignore_want=bool(self['IGNORE_WANT']))
    directive.RuntimeState.update = update

    orig_hac = Part.has_any_code

    def has_any_code(self):
        res = orig_hac(self)
        if _from_run():
            _emit('HasCode', px=_stack()[-1].get('px', -1), res=bool(res))
        return res
    Part.has_any_code = has_any_code

    orig_imp = DocTest._import_module

    def _import_module(self):
        ok = 'true'
        try:
            return orig_imp(self)
        except BaseException:
            ok = 'false'
            raise
        finally:
            if _from_run():
                _emit('Import', ok=ok)
    DocTest._import_module = _import_module

    orig_cs = Part.compilable_source

    def compilable_source(self):
        if _from_run():
            _emit('Compile', px=_stack()[-1].get('px', -1), mode=str(self.compile_mode))
        return orig_cs(self)
    Part.compilable_source = compilable_source

    orig_enter = util_stream.CaptureStdout.__enter__
    orig_exit = util_stream.CaptureStdout.__exit__

    def cap_enter(self):
        r = orig_enter(self)
        if _from_run():
            _emit('CapEnter', px=_stack()[-1].get('px', -1), swapped=sys.stdout is not self.orig_stdout)
        return r

    def cap_exit(self, et, ev, tb):
        r = orig_exit(self, et, ev, tb)
        if _from_run():
            _emit('CapExit', px=_stack()[-1].get('px', -1), exc=et.__name__ if et else 'none', restored=sys.stdout is self.orig_stdout,
                  base=bool(et is not None and not issubclass(et, Exception)))
        return r
    util_stream.CaptureStdout.__enter__ = cap_enter
    util_stream.CaptureStdout.__exit__ = cap_exit

    orig_check = Part.check

    def check(self, got_stdout, got_eval=None, runstate=None, unmatched=None, **kw):
        ok = 'true'
        try:
            if got_eval is None and 'got_eval' not in kw:
                from xdoctest import constants
                got_eval = constants.NOT_EVALED
            return orig_check(self, got_stdout, got_eval, runstate, unmatched, **kw)
        except BaseException as ex:
            ok = type(ex).__name__
            raise
        finally:
            if _from_run():
                _emit('Check', px=_stack()[-1].get('px', -1), nun=len(unmatched or []), ok=ok)
    Part.check = check

    orig_ce = checker.check_exception

    def check_exception(exc_got, want, runstate=None):
        ok = 'true'
        try:
            r = orig_ce(exc_got, want, runstate)
            ok = 'true' if r else 'false'
            return r
        except BaseException as ex:
            ok = 'raise:' + type(ex).__name__
            raise
        finally:
            if _from_run():
                _emit('ExcCheck', px=_stack()[-1].get('px', -1), ok=ok)
    checker.check_exception = check_exception

    orig_post = DocTest._post_run

    def _post_run(self, verbose):
        s = orig_post(self, verbose)
        if _from_run():
            _emit('PostRun', passed=bool(s['passed']), failed=bool(s['failed']), skipped=bool(s['skipped']), nparts=len(self._parts),
                  nskipped=len(self._skipped_parts), nlogged=len(self.logged_stdout), nun=len(self._unmatched_stdout),
                  failed_px=(-2 if self.failed_part == '<IMPORT>' else (self._parts.index(self.failed_part) if self.failed_part in self._parts else -1)))
        return s
    DocTest._post_run = _post_run
    _installed[0] = True


def maybe_install():
    if os.environ.get(GUARD):
        install()


# pytest plugin entry (``-p harness.probe``) and plain import both install when the guard is set
maybe_install()
