"""C09 - every failure is recorded and rendered; one bad doctest never aborts the run.

spec  : specs/DocRun.tla, alphabet C09_Parts (MC_DocRun.tla): failure kinds
        {wrong output, exception, exception inside a helper defined by an
        earlier part (helper longer or shorter than the failing part), error
        found only by compile(), raising repr (with/without stdout), malformed
        directive argument (inline / own line), import failure of the module}
        x position x surrounding parts.  Invariants: ReturnNeverRaises,
        OutcomeIsRef (failed summary, failing part), ExecutedOnceInOrder.
replay: (1) each terminal state -> DocTest.run(on_error='return', verbose
        rotating over 0..3); must return a failed summary of the predicted kind;
        repr_failure() must return text naming the exception type and the
        failing source line, and failed_lineno() must be the raising statement
        (first want line for a mismatch).
        (2) each failing terminal state of the 2-part space is embedded as the
        middle doctest of a three-doctest module run by runner.doctest_module
        ('all', verbosity rotating): the run must return, n_total = 3, the two
        neighbours pass and are executed, failed[] names exactly the bad one.
"""
import os
import zlib

from . import common, runlib, modlib

BOUNDS = {'quick': 3, 'thorough': 4}


def extra(exp, obs, wants, rot):
    bad = []
    dt = obs.get('dt')
    if dt is None or exp['result'] != 'failed':
        return bad
    try:
        import re
        text = re.sub(r'\x1b\[[0-9;]*m', '', '\n'.join(dt.repr_failure()))        # colours are rendering, not content
    except Exception as ex:
        return [('repr_failure', 'rendered text', 'raised %r' % (ex,))]
    if obs.get('exc_type') and obs['exc_type'] not in text:
        bad.append(('report_names_exception_type', obs['exc_type'], text[-400:]))
    k = exp['failed_part']
    lines = obs['text'].split('\n')
    kind = exp['exc_kind']
    if k > 0 and kind in ('exc', 'gotwant', 'compile'):
        lay = obs['layout'][k - 1]
        part = exp['prog'][k - 1]
        if kind == 'gotwant':
            want_line = lay['want_at']
        else:
            want_line = lay.get('fail_at', lay['last_stmt_at'])
        try:
            got_line = dt.failed_lineno() - 1      # DocTest.lineno is 1 for a bare docstring
        except Exception as ex:
            return bad + [('failed_lineno', want_line, 'raised %r' % (ex,))]
        if got_line != want_line:
            bad.append(('failed_lineno', '%d: %s' % (want_line, lines[want_line]), '%d: %s' % (got_line, lines[got_line] if 0 <= got_line < len(lines) else '?')))
        src = lines[lay.get('fail_at', lay['last_stmt_at'])]
        if src.replace('>>> ', '', 1).strip() not in text:
            bad.append(('report_shows_failing_line', src, text[-600:]))
    return bad


def nontrivial(info):
    return info['result'] in ('failed', 'raised')


_MJOB = {}


def _module_case(txt):
    st = runlib.parse_block(txt, runlib._NEEDED + ('wtext',))
    exp = runlib.expected_from_state(st)
    if exp['result'] != 'failed' or not exp['cfg'].get('importOk', True):
        return None
    wants = [[tuple(t) for t in w] for w in st['wtext']]
    rot = (zlib.crc32(txt.encode()) + _MJOB['seed']) % 100003
    okprog = [{'body': 'execp', 'want': 'all', 'dirs': [], 'inline': False}]
    okwants = [[('o', 1, 1)]]
    cases = [(okprog, okwants, rot + 1), (exp['prog'], wants, rot), (okprog, okwants, rot + 2)]
    style = ['freeform', 'google'][rot % 2]
    src, names = modlib.render_module(cases, style=style)
    modname = 'xdvm_%d_%08x' % (os.getpid(), zlib.crc32(txt.encode()))
    path = os.path.join(_MJOB['dir'], modname + '.py')
    with open(path, 'w') as f:
        f.write(src)
    with runlib.Env():
        res = modlib.run_native(path, 'all', verbose=rot % 4)
    os.unlink(path)
    bad = []
    if 'raised' in res:
        bad.append(('doctest_module_returns', 'summary', res['raised']))
    else:
        s = res['summary']
        got = (s.get('n_total'), s.get('n_passed'), s.get('n_failed'), s.get('n_skipped'))
        if got != (3, 2, 1, 0):
            bad.append(('tallies(total,passed,failed,skipped)', (3, 2, 1, 0), got))
        fnames = [e.callname for e in s.get('failed', [])]
        if fnames != ['f1']:
            bad.append(('failed_list', ['f1'], fnames))
        expT = [1] + exp['trace'] + [1]
        if res['T'] != expT:
            bad.append(('executed_statements_of_module', expT, res['T']))
    info = {'key': tuple((p['body'], p['want']) for p in exp['prog'])}
    if bad:
        info.update(bad=[(f, repr(a), repr(b)) for f, a, b in bad], text=src, prog=exp['prog'], cfg=exp['cfg'],
                    exp={'result': exp['result'], 'exc_kind': exp['exc_kind']}, rot=rot)
    return info


def module_phase(out, maxparts):
    cfg = runlib.docrun_cfg('C09_Parts', maxparts, runlib.DOCRUN_INVS)
    res = common.run_tlc('MC_DocRun', cfg, dump=True, timeout=1200)
    common.tlc_must_pass(res, 'DocRun C09 module phase')
    out.add_tlc(res, 'exhaustive:C09/module')
    _MJOB['seed'] = common.seed()
    _MJOB['dir'] = common.scratch_dir('xdv-mods')
    sys_path_add = _MJOB['dir']
    import sys
    sys.path.insert(0, sys_path_add)
    try:
        blocks = list(runlib.terminal_blocks(res.dump))
        infos = [i for i in common.parallel_map(_module_case, blocks, chunk=20) if i is not None]
    finally:
        sys.path.remove(sys_path_add)
    n = 0
    for info in infos:
        n += 1
        out.traces += 1
        out.evaluations += 1
        if 'bad' in info:
            out.violation({'kind': 'module_run', 'fields': ','.join(sorted({b[0] for b in info['bad']}))},
                          {'module_source': info['text'], 'program': info['prog'], 'predicted': info['exp'], 'disagreements': info['bad'], 'rot': info['rot']})
    out.extra['module_runs'] = n
    common.cleanup_scratch()


def run(tier):
    out = common.Outcome('C09', tier)
    n = BOUNDS[tier]
    runlib._JOB['long_tokens'] = True              # a fifth of the programs prints four-line texts with braces (the diff branch of the report)
    runlib._JOB['own_lineno_forms'] = True         # raising statements whose exception carries a line number of its own text
    out.rule = ('every program of <= %d parts over C09_Parts (23 part kinds) reachable in DocRun.tla x import ok/failing, one case per terminal state, '
                'verbosity rotating 0..3; plus every failing <=2-part program embedded in a 3-doctest module run by doctest_module' % n)
    runs = [dict(label='C09/return', parts='C09_Parts', maxparts=n, verbose='rotate', limit=200000),
            dict(label='C09/importfail', parts='C09_Parts', maxparts=2, importoks=('FALSE',), verbose='rotate')]
    runlib.docrun_check(out, runs, nontrivial_fn=nontrivial, extra_check=extra)
    module_phase(out, 2 if tier == 'quick' else 3)
    for dev in ('CompileEscapes', 'ContinueAfterFail'):
        runlib.deviation_must_fail(out, 'C09_Parts', 2, dev)
    out.assumptions = ['failure kinds are the ones of the property list; sabotage of the capture stream (closing sys.stdout) is not among them',
                       'plugin (pytest) front end: see C15']
    # random longer programs (5..8 parts) from TLC's simulation mode over the same specification
    runlib.simulate_replay(out, 'C09_Parts' + ' 5..8 parts', 'C09_Parts', 5, 8, 800 if tier == 'quick' else 15000, extra_check=extra, verbose='rotate')
    from . import tracelib
    tracelib.traced_replay(out, 'C09_Parts<=2', 'C09_Parts', 2)
    tracelib.suite_phase(out, tier)
    return out.finish()


replay = runlib.generic_replay
