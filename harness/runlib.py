"""Replay of DocRun.tla terminal states into the real DocTest.run.

An abstract program (sequence of part records) is rendered to doctest text,
executed by the real xdoctest with an instrumented namespace, and every
observation the specification predicts is compared.
"""
import io
import os
import re
import sys
import types
import warnings

from . import common, tlaval

# ---------------------------------------------------------------------------
# helpers injected into the doctest namespace


class V:
    """value whose repr and str differ by more than quotes"""

    def __init__(self, k):
        self.k = k

    def __repr__(self):
        return 'R%d' % self.k

    def __str__(self):
        return 'S%d' % self.k


class BadRepr:
    def __repr__(self):
        raise RuntimeError('repr failed')


def _install_helper_module():
    m = sys.modules.get('xdvhelp')
    if m is None:
        m = types.ModuleType('xdvhelp')

        class CustomErr(Exception):
            pass
        CustomErr.__module__ = 'xdvhelp'
        CustomErr.__qualname__ = 'CustomErr'
        m.CustomErr = CustomErr

        def boom(exc):
            raise exc
        m.boom = boom
        sys.modules['xdvhelp'] = m
    return m


def make_namespace(T):
    import asyncio
    from xdoctest import exceptions
    help_ = _install_helper_module()

    def p(k, *toks):
        T.append(k)
        for t in toks:
            print(t)

    def v(k, *toks):
        T.append(k)
        for t in toks:
            print(t)
        return V(k)

    def bad(k, *toks):
        T.append(k)
        for t in toks:
            print(t)
        return BadRepr()

    def pd(k, *toks):
        T.append(k)
        for t in toks:
            print(t)
        return lambda f: f

    async def ap(k, *toks):
        T.append(k)
        await asyncio.sleep(0)
        for t in toks:
            print(t)
        return None

    class actx(object):
        async def __aenter__(self):
            await asyncio.sleep(0)
            return self

        async def __aexit__(self, *a):
            return False

    async def aw(k, *toks):
        T.append(k)
        for t in toks:
            print(t)
        await asyncio.sleep(0)
        return V(k)

    def rze(k, src):
        """evaluates source that fails: a SyntaxError with location info, or an AttributeError/NameError with a long message"""
        T.append(k)
        return eval(src)

    def rz(k, exc, *toks):
        T.append(k)
        for t in toks:
            print(t)
        raise exc

    import contextlib

    @contextlib.contextmanager
    def ctx():
        yield

    return {'T': T, 'p': p, 'v': v, 'bad': bad, 'aw': aw, 'ap': ap, 'actx': actx, 'rz': rz, 'rze': rze, 'pd': pd, 'ctx': ctx, 'xdvhelp': help_,
            'ExitTestException': exceptions.ExitTestException}


# ---------------------------------------------------------------------------
# rendering

MESSAGES = ['m{k}', '', 'a: b{k}', 'l1x{k}\nl2y', 'x ... y{k}', 'v1.5 of {k}.', 'q{k}']
EXC_CLASSES = [('ValueError', 'ValueError', 'ValueError'),
               ('xdvhelp.CustomErr', 'xdvhelp.CustomErr', 'CustomErr'),
               ('KeyError', 'KeyError', 'KeyError')]
CERRS = ['return 5', 'break', 'nonlocal q', 'def g(a, a): pass', 'yield 3', 'continue']

DIRTEXT = {
    'SKIP': 'SKIP', 'IGNORE_WANT': 'IGNORE_WANT', 'IED': 'IGNORE_EXCEPTION_DETAIL', 'ELLIPSIS': 'ELLIPSIS',
    'BADARG': 'REQUIRES(nonsense_condition)',
}
REQ_FORMS = {
    # rotation of concrete unmet conditions; the harness controls env/argv so they stay unmet/met
    'REQa': ['REQUIRES(env:XDV_REQ_A==1)', 'REQUIRES(module:xdv_nope_a)', 'REQUIRES(--xdv-flag-a)'],
    'REQb': ['REQUIRES(env:XDV_REQ_B==1)', 'REQUIRES(module:xdv_nope_b)', 'REQUIRES(--xdv-flag-b)'],
    'REQmet': ['REQUIRES(env:XDV_MET==1)', 'REQUIRES(module:os)', 'REQUIRES(cpython)'],
}


def dir_comment(dirs, rot, case_rot=0):
    """rot varies per part (comment prefix, spelling of the sign and case); the concrete spelling of a condition is fixed
    per doctest (case_rot), otherwise -REQUIRES(x) would not name the condition +REQUIRES(x) added"""
    items = []
    for n_, d in enumerate(dirs):
        n = d['n']
        txt = DIRTEXT.get(n) or REQ_FORMS[n][case_rot % len(REQ_FORMS[n])]
        if n in ('REQa', 'REQb') and d['pos'] and (rot + n_) % 4 == 1:
            # several conditions in one directive: a met one in front changes nothing
            txt = txt.replace('REQUIRES(', 'REQUIRES(' + ['env:XDV_MET==1', 'module:os'][rot % 2] + ', ', 1)
        if d['pos']:
            form = (rot // 3 + n_) % 4
            if form == 1 and n != 'BADARG':
                txt = txt                       # the plus sign is optional
            elif form == 2:
                head, sep, tail = txt.partition('(')
                txt = '+' + head.lower() + sep + tail      # names are case-insensitive
            elif form == 3:
                txt = '+ ' + txt                # blanks are ignored
            else:
                txt = '+' + txt
        else:
            txt = '-' + txt
        items.append(txt)
    prefix = ['# xdoctest: ', '# xdoc: ', '# doctest: ', '#xdoctest: ', '# XDOCTEST: ', '# doc: '][rot % 6]
    return prefix + ', '.join(items)


def exc_for(k, want, rot):
    """choose (class expr, qualified name, short name, message) for a raising part"""
    if want == 'tb_short':
        cls = EXC_CLASSES[1]
    else:
        cls = EXC_CLASSES[rot % len(EXC_CLASSES)]
    msgs = MESSAGES
    if want in ('tb_ell', 'tb_msg'):
        msgs = [m for m in MESSAGES if m]           # need a message to get wrong / to elide
    if cls[0] == 'KeyError':
        msgs = [m for m in msgs if '\n' not in m and m]   # KeyError shows repr(message)
    msg = msgs[(rot // 3) % len(msgs)].format(k=k)
    return cls, msg


def exc_text(cls, msg):
    """what traceback.format_exception_only prints for cls(msg)"""
    qual = cls[1]
    if cls[0] == 'KeyError':
        return '%s: %r' % (qual, msg)
    return qual if msg == '' else '%s: %s' % (qual, msg)


def render_body(k, part, rot):
    """returns list of source statements (each a list of lines without prompt)"""
    b = part['body']
    want = part['want']
    o1, o2 = repr(tok_text(('o', k, 1), None)), repr(tok_text(('o', k, 2), None))
    single = bool(part['dirs']) and part['inline']     # a trailing directive belongs to ONE statement
    if b == 'comment':
        return [['# comment %d' % k]] if not part['dirs'] or part['inline'] else []
    if b == 'exec':
        forms = [[['x%d = p(%d)' % (k, k)]],
                 [['y%d = 1' % k], ['x%d = p(%d)' % (k, k)]],
                 [['x%d = [p(%d),' % (k, k), '       0]']],
                 [['for _i in [0]:', '    x%d = p(%d)' % (k, k)]],
                 # decorated definitions: the statement starts at its first decorator line, whatever is defined
                 [['@pd(%d)' % k, 'class K%d(object):' % k, '    pass']],
                 [['@pd(%d)' % k, 'async def g%d():' % k, '    pass']]]
        if rot % 11 == 3:
            forms = forms[4:5]                   # (weighted: the rarer shapes get their share of the rotation)
        if single:
            forms = [f for f in forms if len(f) == 1]
        return forms[rot % len(forms)]
    if b == 'execp':
        forms = [[['x%d = p(%d, %s)' % (k, k, o1)]],
                 [['x%d = p(%d)' % (k, k)], ['y%d = print(%s)' % (k, o1)]],
                 [['x%d = p(%d,' % (k, k), '       %s)' % o1]],
                 [['if True:', '    x%d = p(%d, %s)' % (k, k, o1)]],
                 [['@pd(%d, %s)' % (k, o1), 'def f%d():' % k, '    pass']],
                 [['@pd(%d, %s)' % (k, o1), 'class K%d(object):' % k, '    a = 1']],
                 # a comment line INSIDE the statement does not make a trailing directive a block directive
                 [['x%d = p(%d,' % (k, k), '       # a plain comment between the arguments', '       %s)' % o1]],
                 [['for _i in [0]:', '    # a plain comment in the body', '    x%d = p(%d, %s)' % (k, k, o1)]]]
        if single:
            forms = [f for f in forms if len(f) == 1]
        return forms[rot % len(forms)]
    if b == 'execpp':
        forms = [[['x%d = p(%d, %s, %s)' % (k, k, o1, o2)]],
                 [['x%d = p(%d, %s)' % (k, k, o1)], ['y%d = print(%s)' % (k, o2)]]]
        return forms[rot % len(forms)]
    if b == 'eval':
        return [['v(%d)' % k]]
    if b == 'evalp':
        return [['v(%d, %s)' % (k, o1)]]
    if b == 'evaln':
        return [['p(%d)' % k]]
    if b == 'evalnp':
        return [['p(%d, %s)' % (k, o1)]]
    if b in ('raise', 'praise'):
        cls, msg = exc_for(k, want, rot)
        first = 'x%d = p(%d%s)' % (k, k, (', ' + o1) if b == 'praise' else '')
        forms = [[[first], ['raise %s(%r)' % (cls[0], msg)]],
                 [[first], ['z%d = xdvhelp.boom(%s(%r))' % (k, cls[0], msg)]],
                 [['z%d = rz(%d, %s(%r)%s)' % (k, k, cls[0], msg, (', ' + o1) if b == 'praise' else '')]],
                 # the raising line stands inside a try statement whose clean-up / non-matching handler runs afterwards: the
                 # failing line is still the line that raised
                 [[first], ['try:', '    raise %s(%r)' % (cls[0], msg), 'finally:', '    y%d = 0' % k]],
                 [[first], ['try:', '    z%d = xdvhelp.boom(%s(%r))' % (k, cls[0], msg), 'except ZeroDivisionError:', '    y%d = 0' % k]]]
        if want == 'none' and b == 'raise' and _JOB.get('own_lineno_forms'):       # (switched on by the C09 check)
            # exceptions that carry a line number of their OWN text (not of the doctest): the failing line is the statement's
            forms += [[[first], ['y%d = 0' % k], ["z%d = compile('x = (', 'inner text', 'exec')" % k]],
                      [[first], ['import json'], ["z%d = json.loads('{bad json')" % k]]]
        if single:
            forms = [f for f in forms if len(f) == 1]
        return forms[(rot // 2) % len(forms)]
    if b == 'exit':
        return [['x%d = p(%d)' % (k, k)], ['raise ExitTestException()']]
    if b == 'cerr':
        return [[CERRS[rot % len(CERRS)]]]
    if b == 'reprbad':
        return [['bad(%d)' % k]]
    if b == 'preprbad':
        return [['bad(%d, %s)' % (k, o1)]]
    if b == 'sysexit':
        return [['x%d = p(%d)' % (k, k)], ['raise SystemExit(3)']]
    if b == 'kbint':
        return [['x%d = p(%d)' % (k, k)], ['raise KeyboardInterrupt()']]
    if b == 'await':
        return [['await aw(%d)' % k]]
    if b == 'swapout':
        # the replacement left behind: a text buffer, a writer that can only write, a file that is closed again
        forms = [[['x%d = p(%d)' % (k, k)], ['import sys, io'], ['sys.stdout = io.StringIO()']],
                 [['x%d = p(%d)' % (k, k)], ['import sys'], ['class W%d(object):' % k, '    def write(self, s):', '        return len(s)'], ['sys.stdout = W%d()' % k]],
                 [['x%d = p(%d)' % (k, k)], ['import sys, os'], ['f%d = open(os.devnull, "w")' % k], ['sys.stdout = f%d' % k], ['f%d.close()' % k]]]
        return forms[rot % len(forms)]
    if b == 'closeout':
        forms = [[['x%d = p(%d)' % (k, k)], ['import sys'], ['sys.stdout.close()']],
                 [['x%d = p(%d)' % (k, k)], ['import sys'], ['with sys.stdout:', '    pass']]]
        return forms[rot % len(forms)]
    if b == 'filters':
        return [['x%d = p(%d)' % (k, k)], ['import warnings'], ["warnings.simplefilter('error')"]]
    if b == 'defh':
        forms = [[['x%d = p(%d)' % (k, k)], ['def hh(e):', '    a = 1', '    b = 2', '    c = 3', '    d = 4', '    raise e']],
                 [['x%d = p(%d)' % (k, k)], ['def hh(e):', '    raise e']],
                 [['x%d = p(%d)' % (k, k)], ['class hh(object):', '    def __init__(self, e):', '        self.e = e', '        raise e']]]
        return forms[rot % len(forms)]
    if b == 'callh':
        cls, msg = exc_for(k, want, rot)
        return [['x%d = p(%d)' % (k, k)], ['z%d = hh(%s(%r))' % (k, cls[0], msg)]]
    raise KeyError(b)


_TOK = {'long': False}       # long mode (set per case by checks that ask for it): printed texts of four lines that contain braces


def _long(text, k, j):
    return "%s\n{'part': %d,\n 'line': %d}\nend of %s" % (text, k, j, text) if _TOK['long'] else text


def _flat(texts):
    out = []
    for t in texts:
        out.extend(t.split('\n'))
    return out


def tok_text(tok, prog):
    cls, k, j = tok
    if cls == 'o':
        return _long('o%d_%d' % (k, j), k, j)
    if cls == 'x' and _TOK['long']:
        return _long('X%d' % k, k, j)
    if cls == 'r':
        body = prog[k - 1]['body']
        return 'None' if body in ('evaln', 'evalnp') else 'R%d' % k
    if cls == 's':
        return 'S%d' % k
    if cls == 'x':
        return 'X%d' % k
    raise KeyError(cls)


def render_want(k, part, want_tokens, prog, rot):
    w = part['want']
    if w == 'none':
        return []
    if w in ('tb_exact', 'tb_stack', 'tb_msg', 'tb_ell', 'tb_type', 'tb_short'):
        if part['body'] in ('raise', 'praise'):
            cls, msg = exc_for(k, w, rot)
        else:
            cls, msg = EXC_CLASSES[0], 'm%d' % k
        hdr = ['Traceback (most recent call last):', 'Traceback (innermost last):'][rot % 2]
        if w == 'tb_exact':
            last = exc_text(cls, msg)
        elif w == 'tb_stack':
            last = exc_text(cls, msg)
        elif w == 'tb_msg':
            last = exc_text(cls, 'wrong' + msg.replace('\n', ' '))
        elif w == 'tb_ell':
            last = cls[1] + ': ...'
        elif w == 'tb_type':
            other = 'TypeError' if cls[0] != 'TypeError' else 'OSError'
            last = other if msg == '' else '%s: %s' % (other, msg if cls[0] != 'KeyError' else repr(msg))
        elif w == 'tb_short':
            last = exc_text((cls[0], cls[2], cls[2]), msg)
        lines = [hdr]
        # stack lines between the header and the final line: real frames, an indented or a flush-left ellipsis placeholder
        stacks = [['  File "<stdin>", line 1, in <module>', '    ...'], ['...'], ['  File "mod.py", line 3, in f', '    raise E(m)', '...'], ['    ...'],
                  ['  ...', '  File "<doctest>", line 1, in <module>']]
        if w == 'tb_stack':
            lines += stacks[(rot // 4) % len(stacks)]
        elif rot % 4 == 1:
            lines += stacks[1 + (rot // 4) % 3]
        lines += last.split('\n')
        return lines
    if w == 'c_replace' and rot % 5 == 0 and part['body'] in ('execp', 'execpp', 'evalp', 'evalnp'):
        # a wrong want that normalises to nothing - wrong only for a part that itself printed something: after a silent
        # statement the empty trailing portion of the output equals it up to the default whitespace normalisation
        return ['<BLANKLINE>'] * (1 + rot % 2)
    if w == 'nontb' and rot % 7 == 3:
        # a traceback header without a final 'Type: message' line is not a traceback block either
        return [['Traceback (most recent call last):', '...'], ['Traceback (most recent call last):', '    ...'], ['Traceback (most recent call last):']][rot % 3]
    if w == 'nontb' and rot % 3:
        return _flat([tok_text(t, prog) for t in want_tokens]) + ['second line of text %d' % k] * (rot % 3)
    return _flat([tok_text(t, prog) for t in want_tokens])


def need_sep(prev, cur):
    """text between two parts so that the parser cannot merge them"""
    if prev is None:
        return False
    if prev['want'] != 'none':
        return False
    if prev['dirs'] and prev['inline']:
        return False
    if cur['dirs']:
        return False
    return True


def render_program(prog, wants, rot, indent=0):
    """prog: list of part dicts; wants: list of want token lists (from the spec's WantText).
    Returns (text, expected_part_count, line index of each part's first line)."""
    lines = []
    starts = []
    infos = []
    prev = None
    for idx, part in enumerate(prog):
        k = idx + 1
        r = rot + 7 * idx
        stmts = render_body(k, part, r)
        is_expr_last = part['body'] in ('eval', 'evalp', 'evaln', 'evalnp', 'reprbad', 'preprbad', 'await')
        sep = need_sep(prev, part)
        if sep and part['want'] != 'none' and is_expr_last and len(stmts) == 1 and r % 2 == 0 and prev['body'] != 'comment':
            sep = False          # rely on the final-expression split instead
        if sep:
            lines += ['', 'prose between parts %d' % k, ''] if r % 3 else ['', 'Text:', '']
        elif prev is not None and prev['want'] != 'none' and r % 5 == 0:
            lines += ['']        # a blank line after a want changes nothing
        starts.append(len(lines))
        src = []
        if part['dirs'] and not part['inline']:
            src.append(dir_comment(part['dirs'], r, rot))
        for s in stmts:
            src.extend(s)
        if part['dirs'] and part['inline']:
            # attach to the first or the last line of the first statement
            first = stmts[0]
            pos = (len(src) - sum(len(s) for s in stmts)) + (len(first) - 1 if (r % 2 and not first[0].rstrip().endswith(':')) else 0)
            src[pos] = src[pos] + '  ' + dir_comment(part['dirs'], r, rot)
        first_of_stmt = set()
        n = 1 if (part['dirs'] and not part['inline']) else 0
        first_of_stmt.add(0)
        for s in stmts:
            first_of_stmt.add(n)
            n += len(s)
        src_at = len(lines)
        for li, text in enumerate(src):
            lines.append('>>> ' + text)
        want_at = len(lines)
        wl = render_want(k, part, wants[idx], prog, r)
        lines += wl
        last_at = src_at + len(src) - (len(stmts[-1]) if stmts else 0)
        fail_at = last_at
        for li in range(last_at, src_at + len(src)):            # the line of the last statement that raises (when it is an inner line)
            if any(tok in src[li - src_at] for tok in ('raise ', '.boom(', 'rz(', 'rze(', 'hh(', 'compile(', 'json.loads(')):
                fail_at = li
                break
        infos.append({'src_at': src_at, 'nsrc': len(src), 'want_at': want_at, 'nwant': len(wl), 'last_stmt_at': last_at, 'fail_at': fail_at})
        prev = part
    pad = ' ' * indent
    starts = infos
    return '\n'.join(pad + l if l else l for l in lines), starts


# ---------------------------------------------------------------------------
# execution of one abstract case against the real code

KIND_TO_EXC = {
    'gotwant': ('GotWantException',),
    'exc': ('ValueError', 'CustomErr', 'KeyError', 'NameError', 'SyntaxError', 'JSONDecodeError'),
    'compile': ('SyntaxError',),
    'reprfail': ('ExtractGotReprException', 'RuntimeError'),
    'directive': ('Exception',),
    'import': ('ImportError', 'ModuleNotFoundError', 'RuntimeError', 'ZeroDivisionError'),
}


class Env:
    """process environment the directive conditions are evaluated in"""

    def __enter__(self):
        self.old_env = dict(os.environ)
        self.old_argv = list(sys.argv)
        for k in ('XDV_REQ_A', 'XDV_REQ_B'):
            os.environ.pop(k, None)
        os.environ['XDV_MET'] = '1'
        sys.argv = ['xdv-harness']
        from xdoctest import directive
        directive._MODNAME_EXISTS_CACHE.pop('xdv_nope_a', None)
        directive._MODNAME_EXISTS_CACHE.pop('xdv_nope_b', None)
        return self

    def __exit__(self, *a):
        os.environ.clear()
        os.environ.update(self.old_env)
        sys.argv = self.old_argv


def opts_to_config(opts):
    m = {'SKIP': 'SKIP', 'ELLIPSIS': 'ELLIPSIS', 'IGNORE_WANT': 'IGNORE_WANT', 'IED': 'IGNORE_EXCEPTION_DETAIL'}
    if any(k == 'REQ' for k, v in opts):
        # a requirement as default option goes through the command-line parser of the options string
        from xdoctest import doctest_example
        parts = []
        for k, v in opts:
            if k == 'REQ':
                parts += ['+' + REQ_FORMS['REQ' + r][1] for r in sorted(v)]
            else:
                parts.append(('+' if v else '-') + m[k])
        ns = {'options': ','.join(parts).lower(), 'offset_linenos': False, 'colored': False, 'reportchoice': 'udiff', 'global_exec': None,
              'supress_import_errors': False, 'verbose': 0}
        return doctest_example.DoctestConfig()._populate_from_cli(ns)['default_runtime_state']
    return {m[k]: v for k, v in opts}


REPORT_STYLES = ['udiff', 'cdiff', 'ndiff', 'none', 'only_first_failure']


_PROC_STD = (sys.stdout, sys.stderr)


def run_case(prog, wants, cfg, rot, modpath=None, verbose=0, reportchoice=None, colored=False):
    """Execute; returns observation dict."""
    from xdoctest import doctest_example
    if any(k == 'REQ' for k, v in cfg['opts']):
        rot = rot - rot % 3 + 1          # the options string is lower-cased by the command line: use the (lower-case) module: spelling
    text, starts = render_program(prog, wants, rot)
    T = []
    obs = {'text': text, 'layout': starts}
    # an earlier case may have left a closed or foreign stream behind: a capture object that was never stopped puts ITS
    # original stream back whenever its finaliser happens to run
    for _name, _real in zip(('stdout', 'stderr'), _PROC_STD):
        cur = getattr(sys, _name)
        if cur is not _real and (getattr(cur, 'closed', False) or isinstance(cur, io.StringIO)):
            setattr(sys, _name, _real)
        if getattr(getattr(sys, _name), 'closed', False):        # even the process's own stream was closed by a stray doctest statement
            setattr(sys, _name, open(os.devnull, 'w'))
    with warnings.catch_warnings():
        warnings.simplefilter('ignore')
        dt = doctest_example.DocTest(text, modpath=modpath, callname='case', mode=cfg['mode'])
        dt.config['default_runtime_state'] = opts_to_config(cfg['opts'])
        import copy as _copy
        given_defaults = _copy.deepcopy(dt.config['default_runtime_state'])     # the front ends hand the SAME dict to every doctest
        dt.config['colored'] = colored
        if reportchoice:
            dt.config['reportchoice'] = reportchoice
        dt.global_namespace.update(make_namespace(T))
        old_stdout, old_stderr = sys.stdout, sys.stderr
        old_filters = list(warnings.filters)
        old_showwarning = warnings.showwarning
        old_path = list(sys.path)
        old_path_obj = sys.path
        sink = io.StringIO()
        sys.stdout = sink
        outer = sys.stdout
        try:
            try:
                dt._parse()
                obs['nparts'] = len(dt._parts)
                obs['part_wants'] = [bool(p.want) for p in dt._parts]
                obs['part_ndirs'] = [len(p.directives) for p in dt._parts]
                obs['part_offsets'] = [p.line_offset for p in dt._parts]
            except Exception as ex:
                obs['parse_error'] = repr(ex)
                return obs
            try:
                summary = dt.run(verbose=verbose, on_error=cfg['onError'])
                obs['stdout_restored'] = sys.stdout is outer
                obs['stderr_restored'] = sys.stderr is old_stderr
                obs['result'] = 'failed' if summary['failed'] else ('passed' if summary['passed'] else 'skipped')
                obs['exc_type'] = type(summary['exc_info'][1]).__name__ if summary['exc_info'] else None
                obs['flags_consistent'] = (int(summary['passed']) + int(summary['failed']) + int(summary['skipped'])) == 1
            except BaseException as ex:
                # looked at while the exception (and with it the frames of the run) is alive: a finaliser must not be what
                # puts the stream back
                obs['stdout_restored'] = sys.stdout is outer
                obs['stderr_restored'] = sys.stderr is old_stderr
                obs['result'] = 'raised'
                obs['exc_type'] = type(ex).__name__
            obs['filters_restored'] = warnings.filters == old_filters
            obs['showwarning_restored'] = warnings.showwarning is old_showwarning
            new_path = [q for q in sys.path if q != '/xdv/leftover']
            obs['path_restored'] = new_path == old_path
            if not obs['path_restored']:
                obs['path_diff'] = [q for q in new_path if q not in old_path] + ['-' + q for q in old_path if q not in new_path]
            import asyncio
            obs['no_running_loop'] = asyncio._get_running_loop() is None
        finally:
            if obs.get('stdout_restored') is False:
                # a capture object that was never stopped puts ITS original stream back whenever its finaliser runs: make
                # that happen now, not in the middle of a later case
                import gc
                gc.collect()
            sys.stdout, sys.stderr = old_stdout, old_stderr
            warnings.filters[:] = old_filters
            warnings.showwarning = old_showwarning
            sys.path = old_path_obj             # (an imported module may have bound sys.path to a new list)
            sys.path[:] = old_path
    obs['trace'] = list(T)
    fp = dt.failed_part
    if fp is None:
        obs['failed_part'] = 0
    elif fp == '<IMPORT>':
        obs['failed_part'] = -1
    else:
        obs['failed_part'] = dt._parts.index(fp) + 1
    obs['logged'] = {k + 1: v for k, v in dt.logged_stdout.items()}
    # (private bookkeeping of the run loop: compared when present, so that renaming it is not mistaken for a violation)
    if hasattr(dt, '_skipped_parts'):
        obs['skipped'] = sorted(dt._parts.index(p) + 1 for p in dt._skipped_parts)
    if hasattr(dt, '_unmatched_stdout'):
        obs['n_unmatched'] = len(dt._unmatched_stdout)
    obs['ns_empty'] = len(dt.global_namespace) == 0
    rs = getattr(dt, '_runstate', None)
    if rs is not None and not hasattr(rs, '_global_state'):
        rs = None
    if rs is not None:
        gs = rs._global_state
        obs['final_g'] = {'SKIP': bool(gs['SKIP']), 'IGNORE_WANT': bool(gs['IGNORE_WANT']), 'IED': bool(gs['IGNORE_EXCEPTION_DETAIL']),
                          'ELLIPSIS': bool(gs['ELLIPSIS']),
                          'NREQ': len(gs['REQUIRES']) if isinstance(gs['REQUIRES'], (set, frozenset, list)) else repr(gs['REQUIRES'])}
        from xdoctest import directive as _d
        obs['defaults_untouched'] = (_d.DEFAULT_RUNTIME_STATE['REQUIRES'] == set() and not _d.DEFAULT_RUNTIME_STATE['SKIP'])
    # the default options given to the run are what the next doctest of the session starts from: a run must not change them
    obs['given_defaults_untouched'] = dt.config['default_runtime_state'] == given_defaults
    obs['dt'] = dt
    return obs


def expected_from_state(st):
    """project a DocRun terminal state to the observations run_case makes"""
    prog = [dict(p) for p in st['prog']]
    for p in prog:
        p['dirs'] = [dict(d) for d in p['dirs']]
    cfg = dict(st['cfgv'])
    cfg['opts'] = sorted(tuple(o) for o in cfg['opts'])
    res = st['result']
    exp = {'prog': prog, 'cfg': cfg}
    if res.startswith('raised:'):
        exp['result'] = 'raised'
        exp['raise_kind'] = res.split(':', 1)[1]
    else:
        exp['result'] = res
    exp['exc_kind'] = st['excInfo']
    exp['trace'] = list(st['executed'])
    exp['failed_part'] = st['failedPart']
    logged = st['logged']
    if isinstance(logged, tuple):
        logged = {i + 1: v for i, v in enumerate(logged)}
    exp['logged'] = {k: [tuple(t) for t in v] for k, v in logged.items()}
    exp['skipped'] = sorted(st['skipped'])
    exp['n_unmatched'] = len(st['unmatched'])
    exp['done'] = st['pc'] == 'done'
    if 'g' in st:
        g = st['g']
        exp['final_g'] = {'SKIP': g['SKIP'], 'IGNORE_WANT': g['IGNORE_WANT'], 'IED': g['IED'], 'ELLIPSIS': g['ELLIPSIS'], 'NREQ': len(g['REQ'])}
    exp['nlive'] = st['nlive']
    return exp


def compare(exp, obs, wants):
    """returns list of (field, expected, observed) disagreements"""
    prog = exp['prog']
    bad = []
    if 'parse_error' in obs:
        return [('parse', 'parts', obs['parse_error'])]
    if obs['nparts'] != len(prog):
        bad.append(('nparts', len(prog), obs['nparts']))
        return bad
    want_flags = [p['want'] != 'none' for p in prog]
    if obs['part_wants'] != want_flags:
        bad.append(('part_wants', want_flags, obs['part_wants']))
    ndirs = [len(p['dirs']) for p in prog]
    if obs['part_ndirs'] != ndirs:
        bad.append(('part_ndirs', ndirs, obs['part_ndirs']))
    if obs['result'] != exp['result']:
        bad.append(('result', exp['result'], obs['result']))
    if obs['trace'] != exp['trace']:
        bad.append(('trace', exp['trace'], obs['trace']))
    if exp['result'] == 'failed':
        names = KIND_TO_EXC.get(exp['exc_kind'], ())
        if obs.get('exc_type') not in names:
            bad.append(('exc_type', names, obs.get('exc_type')))
        if obs['failed_part'] != exp['failed_part']:
            bad.append(('failed_part', exp['failed_part'], obs['failed_part']))
    elif exp['result'] in ('passed', 'skipped'):
        if obs['failed_part'] != 0:
            bad.append(('failed_part', 0, obs['failed_part']))
        if obs.get('exc_type') is not None:
            bad.append(('exc_type', None, obs.get('exc_type')))
    elif exp['result'] == 'raised':
        kind = exp['raise_kind']
        names = {'base': ('SystemExit', 'KeyboardInterrupt'), 'Skipped': ('Skipped',), 'internal': ('ValueError',)}.get(kind) or KIND_TO_EXC.get(kind, ())
        if kind == 'reprfail':
            names = ('RuntimeError',)
        if obs.get('exc_type') not in names:
            bad.append(('raised_type', names, obs.get('exc_type')))
    if 'flags_consistent' in obs and not obs['flags_consistent']:
        bad.append(('summary_flags', 'exactly one of passed/failed/skipped', 'inconsistent'))
    exp_logged = {k: ''.join(tok_text(t, prog) + '\n' for t in v) for k, v in exp['logged'].items()}
    if obs['logged'] != exp_logged:
        bad.append(('logged_stdout', exp_logged, obs['logged']))
    if 'skipped' in obs and obs['skipped'] != exp['skipped']:
        bad.append(('skipped_parts', exp['skipped'], obs['skipped']))
    if 'n_unmatched' in obs and obs['n_unmatched'] != exp['n_unmatched']:
        bad.append(('n_unmatched', exp['n_unmatched'], obs['n_unmatched']))
    if exp['done'] and exp['failed_part'] != -1 and not obs['ns_empty']:
        bad.append(('namespace_cleared', True, False))
    if 'final_g' in exp and 'final_g' in obs and exp['final_g'] != obs['final_g']:
        bad.append(('final_persistent_state', exp['final_g'], obs['final_g']))
    if obs.get('defaults_untouched') is False:
        bad.append(('DEFAULT_RUNTIME_STATE_untouched', True, False))
    if obs.get('given_defaults_untouched') is False:
        bad.append(('default_options_of_the_session_untouched', True, False))
    if not obs.get('stdout_restored', True):
        bad.append(('stdout_restored', True, False))
    if not obs.get('stderr_restored', True):
        bad.append(('stderr_restored', True, False))
    for f in ('filters_restored', 'showwarning_restored', 'path_restored', 'no_running_loop'):
        if obs.get(f) is False:
            bad.append((f, True, obs.get('path_diff') if f == 'path_restored' else False))
    return bad


# ---------------------------------------------------------------------------
# dump handling: split into raw state blocks so that workers parse in parallel

_NEEDED = ('prog', 'cfgv', 'result', 'executed', 'failedPart', 'logged', 'skipped', 'unmatched', 'pc', 'excInfo', 'nlive', 'g')


def terminal_blocks(path):
    """yield raw text of the states with pc in {done, raised}"""
    buf = []
    with open(path) as f:
        for line in f:
            if line.startswith('State '):
                if buf:
                    txt = ''.join(buf)
                    if '/\\ pc = "done"' in txt or '/\\ pc = "raised"' in txt:
                        yield txt
                buf = []
            elif line.strip():
                buf.append(line)
        if buf:
            txt = ''.join(buf)
            if '/\\ pc = "done"' in txt or '/\\ pc = "raised"' in txt:
                yield txt


_VAR = re.compile(r'^/\\ (\w+) = ', re.M)


def parse_block(txt, needed=_NEEDED):
    out = {}
    ms = list(_VAR.finditer(txt))
    for a, m in enumerate(ms):
        name = m.group(1)
        if name not in needed:
            continue
        end = ms[a + 1].start() if a + 1 < len(ms) else len(txt)
        out[name] = tlaval.parse_value(txt[m.end():end])
    return out


def want_tokens_for(prog, exp_state_wants):
    return exp_state_wants


# ---------------------------------------------------------------------------
# generic replay driver

import zlib

_JOB = {}


def _replay_block(txt):
    st = parse_block(txt, _NEEDED + ('wtext',))
    return _replay_state(st, txt)


def _replay_state(st, txt):
    exp = expected_from_state(st)
    wants = [[tuple(t) for t in w] for w in st['wtext']]
    rot = (zlib.crc32(txt.encode()) + _JOB['seed']) % 100003
    _TOK['long'] = bool(_JOB.get('long_tokens')) and rot % 5 == 2
    with Env():
        verbose = _JOB.get('verbose', 0)
        if verbose == 'rotate':
            verbose = rot % 4
        modpath = None
        if not exp['cfg'].get('importOk', True):
            modpath = _JOB['failmods'][rot % len(_JOB['failmods'])]
        rotate = _JOB.get('verbose', 0) == 'rotate'
        obs = run_case(exp['prog'], wants, exp['cfg'], rot, modpath=modpath, verbose=verbose,
                       reportchoice=REPORT_STYLES[(rot // 4) % len(REPORT_STYLES)] if rotate else None, colored=rotate and rot % 3 == 0)
    bad = compare(exp, obs, wants)
    extra = _JOB['extra_check'](exp, obs, wants, rot) if _JOB.get('extra_check') else []
    bad = bad + extra
    key = (tuple((p['body'], p['want'], tuple((d['n'], d['pos']) for d in p['dirs']), p['inline']) for p in exp['prog']), tuple(exp['cfg']['opts']), exp['cfg']['onError'], exp['cfg']['mode'])
    info = {'key': key, 'result': exp['result'], 'nparts': len(exp['prog'])}
    if bad:
        info['bad'] = [(f, repr(a), repr(b)) for f, a, b in bad]
        info['text'] = obs.get('text')
        info['prog'] = exp['prog']
        info['cfg'] = exp['cfg']
        info['exp'] = {k: exp[k] for k in ('result', 'exc_kind', 'trace', 'failed_part', 'skipped', 'n_unmatched')}
        info['rot'] = rot
    elif rot % 997 == 0:
        info['text'] = obs.get('text')
    return info


def replay_dump(out, dump_path, sig_fn, nontrivial_fn, extra_check=None, verbose=0, limit=None):
    """Replays every terminal state of the dump; registers violations in `out`.
    sig_fn(info) -> signature dict for a failing case; nontrivial_fn(info) -> bool."""
    _JOB['seed'] = common.seed()
    _JOB['extra_check'] = extra_check
    _JOB['verbose'] = verbose
    _ensure_failmods()
    blocks = list(terminal_blocks(dump_path))
    return _replay_blocks(out, blocks, sig_fn, nontrivial_fn, limit)


def _ensure_failmods():
    if 'failmods' not in _JOB or not os.path.isdir(os.path.dirname(_JOB['failmods'][0])):
        d = common.scratch_dir('xdv-failmod')
        _JOB['failmods'] = []
        for name, body in (('xdv_fail_zde', 'raise ZeroDivisionError("import boom")\n'), ('xdv_fail_imp', 'import xdv_no_such_module_zz\n'),
                           ('xdv_fail_rt', 'import sys\nsys.path.append("/xdv/leftover")\nraise RuntimeError("late")\n'),
                           # the module moves the temporary search-path entry before it fails
                           ('xdv_fail_ins', 'import sys\nsys.path.insert(0, "/xdv/leftover")\nraise RuntimeError("late")\n'),
                           ('xdv_fail_ins2', 'import sys\nsys.path.insert(0, "/xdv/leftover")\nimport xdv_no_such_module_qq\n'),
                           # the module binds sys.path to a new list object (the `sys.path = [...] + sys.path` idiom) before it fails
                           ('xdv_fail_rebind', 'import sys\nsys.path = [] + sys.path\nraise RuntimeError("late")\n')):
            fp = os.path.join(d, name + '.py')
            with open(fp, 'w') as f:
                f.write(body)
            _JOB['failmods'].append(fp)


def _replay_blocks(out, blocks, sig_fn, nontrivial_fn, limit):
    if limit and len(blocks) > limit:
        import random
        rng = random.Random(common.seed())
        blocks = rng.sample(blocks, limit)
        out.extra['replay_sampled'] = True
    infos = common.parallel_map(_replay_block, blocks, chunk=50)
    results = {}
    for info in infos:
        out.traces += 1
        out.evaluations += 1
        results[info['result']] = results.get(info['result'], 0) + 1
        if nontrivial_fn(info):
            out.count_nontrivial(info['key'])
        if 'bad' in info:
            out.violation(sig_fn(info), {'text': info['text'], 'program': info['prog'], 'config': info['cfg'],
                                         'predicted': info['exp'], 'disagreements': info['bad'], 'rot': info['rot']})
        elif 'text' in info:
            out.sample({'doctest': info['text'], 'predicted_result': info['result']}, limit=4)
    out.extra.setdefault('replayed_by_predicted_result', {})
    for k, v in results.items():
        out.extra['replayed_by_predicted_result'][k] = out.extra['replayed_by_predicted_result'].get(k, 0) + v
    return len(blocks)


def _replay_record(raw):
    """a terminal state printed by the Report action (simulation runs)"""
    st = tlaval.parse_value(raw)
    return _replay_state(st, raw)


def simulate_replay(out, label, parts, minparts, maxparts, num, sig_fn=None, nontrivial_fn=lambda i: True, extra_check=None, verbose=0, **kw):
    """random long programs: `tlc -simulate` over the same spec, every terminal state it reaches is printed, de-duplicated and replayed"""
    cfg = docrun_cfg(parts, maxparts, DOCRUN_INVS, deviation=('Emit',), minparts=minparts, **kw)
    res = common.run_tlc('MC_DocRun', cfg, simulate={'num': num}, depth=12 * maxparts + 10, seed_=common.seed() + 1, printed=True, timeout=1500)
    if res.violated:
        raise common.MachineryError('spec-level invariant %s violated in simulation (%s):\n%s' % (res.violated, label, res.stdout[-3000:]))
    raws = sorted(set(common.iter_printed(res)))
    out.tlc_cmds.append('simulate:%s: -simulate num=%d -depth %d  [%d distinct terminal states]' % (label, num, 12 * maxparts + 10, len(raws)))
    _JOB['seed'] = common.seed()
    _JOB['extra_check'] = extra_check
    _JOB['verbose'] = verbose
    _ensure_failmods()
    infos = common.parallel_map(_replay_record, raws, chunk=50)
    for info in infos:
        out.traces += 1
        out.evaluations += 1
        if nontrivial_fn(info):
            out.count_nontrivial(info['key'])
        if 'bad' in info:
            out.violation((sig_fn or default_sig)(info), {'text': info['text'], 'program': info['prog'], 'config': info['cfg'],
                                                          'predicted': info['exp'], 'disagreements': info['bad'], 'rot': info['rot']})
    out.extra['simulated_terminal_states_replayed[%s]' % label] = len(raws)
    out.extra['simulated_max_parts[%s]' % label] = max([i['nparts'] for i in infos] or [0])
    common.cleanup_scratch()
    return len(raws)


def docrun_cfg(parts, maxparts, invariants, tail='TailDefault', onerrors=('return',), modes=('native',), opts='NoOpts',
               importoks=('TRUE',), deviation=(), minparts=0):
    lines = ['SPECIFICATION Spec', 'CONSTANTS',
             ' Parts <- %s' % parts, ' TailParts <- %s' % tail, ' MaxParts = %d' % maxparts, ' MinParts = %d' % minparts,
             ' OnErrors = {%s}' % ', '.join('"%s"' % o for o in onerrors),
             ' Modes = {%s}' % ', '.join('"%s"' % o for o in modes),
             ' DefaultOpts <- %s' % opts,
             ' ImportOks = {%s}' % ', '.join(importoks),
             ' Deviation = {%s}' % ', '.join('"%s"' % d for d in deviation)]
    lines += ['INVARIANT %s' % i for i in invariants]
    lines += ['CHECK_DEADLOCK FALSE', '']
    return '\n'.join(lines)


DOCRUN_INVS = ['ExecutedOnceInOrder', 'SkippedIsRef', 'OutcomeIsRef', 'ReturnNeverRaises', 'NothingRanNotPassed',
               'LoggedIsOutput', 'StdoutRestored', 'NamespaceCleared', 'PersistentIsFold', 'OverlayEmptyAtChoose']


# ---------------------------------------------------------------------------
# generic check driver shared by the DocRun-based properties

def default_sig(info):
    fields = sorted({b[0] for b in info['bad']})
    return {'kind': 'replay', 'fields': ','.join(fields)}


def docrun_check(out, runs, sig_fn=default_sig, nontrivial_fn=lambda info: True, extra_check=None, verbose=0):
    """runs: list of dicts(label, parts, maxparts, onerrors, modes, opts, importoks, limit, tail, simulate)."""
    for r in runs:
        cfg = docrun_cfg(r['parts'], r['maxparts'], DOCRUN_INVS, tail=r.get('tail', 'TailDefault'),
                         onerrors=r.get('onerrors', ('return',)), modes=r.get('modes', ('native',)),
                         opts=r.get('opts', 'NoOpts'), importoks=r.get('importoks', ('TRUE',)),
                         minparts=r.get('minparts', 0))
        res = common.run_tlc('MC_DocRun', cfg, dump=True, timeout=r.get('timeout', 2400))
        common.tlc_must_pass(res, 'DocRun ' + r['label'])
        out.add_tlc(res, 'exhaustive:' + r['label'])
        if res.violated:
            raise common.MachineryError('spec-level invariant %s violated on the unchanged spec (%s):\n%s' % (res.violated, r['label'], res.stdout[-3000:]))
        replay_dump(out, res.dump, sig_fn, nontrivial_fn, extra_check=extra_check, verbose=r.get('verbose', verbose), limit=r.get('limit'))
        common.cleanup_scratch()
    out.exhaustive = not out.extra.get('replay_sampled', False)


def deviation_must_fail(out, parts, maxparts, deviation, **kw):
    """vacuity control: the invariants must be violated when the named wrong behaviour is switched on"""
    cfg = docrun_cfg(parts, maxparts, DOCRUN_INVS, deviation=(deviation,), **kw)
    res = common.run_tlc('MC_DocRun', cfg, timeout=900)
    common.cleanup_scratch()
    if not res.violated:
        raise common.MachineryError('vacuity control: deviation %s does not violate any invariant over %s' % (deviation, parts))
    out.extra.setdefault('deviations_rejected', {})[deviation] = res.violated


def generic_replay(path):
    import json
    d = json.load(open(path))['detail']
    print(d.get('text'))
    print('predicted:', d.get('predicted'))
    print('disagreements:', d.get('disagreements'))
    return 0
