"""C04 - directive scoping: block persists, inline is local, skipped code never runs.

spec  : specs/DocRun.tla, alphabet C04_Parts x default options C04_Opts
        (MC_DocRun.tla): statements with and without want, carrying an inline
        or heading an own-line directive among +/-SKIP, +/-REQUIRES(unmet a),
        +/-REQUIRES(unmet b), +/-REQUIRES(met), directive-only lines, two
        directives in one comment.  Operational model: RuntimeState.update with
        the overlay dictionary; declarative reference: FoldBlock/RefStateAt.
        Invariants: SkippedIsRef, PersistentIsFold, OverlayEmptyAtChoose,
        ExecutedOnceInOrder, OutcomeIsRef.
replay: each terminal state -> doctest text (statement shapes one-line /
        multi-line / compound rotate; conditions realised as env:, module: and
        argv flags under the harness's control) -> real DocTest.run; executed
        statements, skipped parts, verdict, logged stdout and the final
        persistent RuntimeState must equal the prediction.
below : specs/Directive.tla (harness/dirlib.py) - from the text of a directive
        comment to the directives and their effect: the token scan of
        _split_opstr with its paren stack and the string surgery of
        parse_directive_optstr (operational) against the documented option
        syntax (declarative; SplitIsDecl) over signs, case, inner blanks,
        unknown names, comma / comma-blank / blank separators, one- and
        two-argument REQUIRES; recognition of the comment (11 prefixes x own
        line / trailing / continuation line / inside a string literal); all 28
        condition spellings of REQUIRES (flag, module, env truthy / == / !=,
        platform, os, implementation, python major; malformed ones) against
        the documented meaning (ConditionsAreDecl); effect on the state.
        Every case is replayed through Directive.extract and through a doctest
        whose first statement stands under the comment and whose second
        follows it.
"""
from . import common, runlib

BOUNDS = {'quick': dict(n=3, limit=None), 'thorough': dict(n=3, limit=None, core=5)}


def extra(exp, obs, wants, rot):
    return []


def nontrivial(info):
    return any(k[2] for k in info['key'][0]) or bool(info['key'][1])


def run(tier):
    out = common.Outcome('C04', tier)
    b = BOUNDS[tier]
    out.rule = ('every event sequence of <= %d parts over C04_Parts (36 part kinds) x 3 default-option settings reachable in DocRun.tla; '
                'non-trivial when a directive or default option is present' % b['n'])
    runs = [dict(label='C04', parts='C04_Parts', maxparts=b['n'], opts='C04_Opts', limit=b['limit'])]
    if b.get('core'):
        # longer sequences over the core alphabet (12 part kinds)
        runs.append(dict(label='C04 core', parts='C04_Core', maxparts=b['core'], opts='C04_Opts', limit=300000))
    runlib.docrun_check(out, runs, nontrivial_fn=nontrivial, extra_check=extra)
    for dev in ('OverlayLeaks', 'InlineToGlobal', 'InlineSetOnEmptyOverlay'):
        runlib.deviation_must_fail(out, 'C04_Parts', 2, dev, opts='C04_Opts')
    out.assumptions = ['unmet/met conditions are env:, module: and command-line-flag requirements controlled by the harness',
                       'directive-looking text inside string literals: Directive.tla placements (here) and the C01/C13 parser checks']
    # random longer programs (5..8 parts) from TLC's simulation mode over the same specification
    runlib.simulate_replay(out, 'C04_Parts' + ' 5..8 parts', 'C04_Parts', 5, 8, 800 if tier == 'quick' else 15000, opts='C04_Opts')
    from . import tracelib, dirlib
    tracelib.traced_replay(out, 'C04_Parts<=2', 'C04_Parts', 2, opts='C04_Opts')
    # the layer below the scoping rules: from the text of a directive comment to the directives and their effect (Directive.tla)
    dirlib.directive_phase(out, tier)
    return out.finish()


replay = runlib.generic_replay
