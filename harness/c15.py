"""C15 - pytest plugin and native runner give the same verdict for every doctest.

spec  : specs/Session.tla with both front ends over the same collected list:
        native (force-disabled omitted from 'all'; summary flags; status from
        n_failed) and pytest (one item per doctest: skipped when
        force-disabled, run(on_error='raise'), skipped when every part was
        skipped or nothing ran); default options none / +SKIP / -ELLIPSIS given
        to both.  Invariants: PytestVerdicts (every collected doctest reported,
        verdict = solo outcome, force-disabled |-> skipped), RunSetRight,
        TalliesAddUp, ExitIffFailed.
replay: the modules of the finished cases are placed six to a directory; one
        `pytest --xdoctest` subprocess per directory (style and options on the
        command line, a recorder conftest writes the outcome of every node) and
        the native runner per module and per doctest (in process, through
        xdoctest.__main__.main for the status): same identifiers, the predicted
        verdict on both sides, force-disabled skipped under pytest and omitted
        natively, both exit non-zero exactly when some doctest failed.
"""
import io
import json
import os
import subprocess
import sys
import warnings
import zlib

from . import common, sessionlib, modlib

KINDS = ('pass', 'failout', 'failexc', 'failcompile', 'faildirective', 'skipall', 'skippart', 'expexc', 'comment', 'disabled', 'disabledfail', 'needell', 'latenote', 'latenotefail')
BOUNDS = {'quick': dict(n=3, dirs=160, per=6), 'thorough': dict(n=4, dirs=700, per=6)}
OPTS = {'none': '', 'skip': '+SKIP', 'noell': '-ELLIPSIS', 'req': '+REQUIRES(module:xdv_nope_q)'}
CONFTEST = '''import json
_R = []
def pytest_runtest_logreport(report):
    if report.when == 'call' or (report.when == 'setup' and report.outcome != 'passed'):
        _R.append([report.nodeid, report.outcome])
def pytest_sessionfinish(session, exitstatus):
    json.dump({'results': _R, 'exit': int(exitstatus)}, open('xdv_results.json', 'w'))
'''
_J = {}


def _dir_case(args):
    idx, opt, style, cases = args
    d = os.path.join(_J['dir'], 'd%d' % idx)
    os.makedirs(d)
    with open(os.path.join(d, 'conftest.py'), 'w') as f:
        f.write(CONFTEST)
    layout = 'freeform' if style == 'freeform' else 'google'
    mods = []
    for j, case in enumerate(cases):
        name = 'xdvp_%d_%d' % (idx, j)
        src = sessionlib.render_module(case['mod'], idx + j, layout=layout)
        with open(os.path.join(d, name + '.py'), 'w') as f:
            f.write(src)
        mods.append((name, case, src))
    env = dict(os.environ, XDV_E='1')
    env.pop('XDV_NOPE', None)
    cmd = [common.PY, '-m', 'pytest', '--xdoctest', '--xdoctest-style=' + style, '-p', 'no:cacheprovider', '-q', '-c', '/dev/null', '--rootdir=' + d, d]
    if OPTS[opt]:
        cmd.insert(5, '--xdoctest-options=' + OPTS[opt])
    p = subprocess.run(cmd, cwd=d, env=env, stdout=subprocess.PIPE, stderr=subprocess.STDOUT, text=True)
    bad = []
    try:
        rec = json.load(open(os.path.join(d, 'xdv_results.json')))
    except Exception as ex:
        return {'bad': [('pytest_session', 'results', 'no result file: %r\n%s' % (ex, p.stdout[-1500:]))], 'text': '\n'.join(m[2] for m in mods), 'n': 0}
    got = {}
    for nodeid, outcome in rec['results']:
        got.setdefault(nodeid.split('::')[0].replace('.py', ''), {})[nodeid.split('::', 1)[1]] = outcome
    any_failed_spec = False
    native_any = False
    n = 0
    for name, case, src in mods:
        kinds = case['mod']
        exp_py = {'f%d:0' % (i - 1): o for i, o in case['verdict'].items()}
        any_failed_spec |= 'failed' in exp_py.values()
        gp = got.get(name, {})
        if gp != exp_py:
            bad.append(('pytest_verdicts[%s]' % name, exp_py, gp))
        # native side: per doctest (named) and the whole module
        path = os.path.join(d, name + '.py')
        nat = case['native']
        config = {'default_runtime_state': {'none': {}, 'skip': {'SKIP': True}, 'noell': {'ELLIPSIS': False}, 'req': {'REQUIRES': {'module:xdv_nope_q'}}}[opt]}
        with sessionlib.Env(1):
            res = modlib.run_native(path, 'all', verbose=0, style=style, config=config)
        if 'raised' in res:
            bad.append(('native_all[%s]' % name, 'summary', res['raised']))
        else:
            s = res['summary']
            t = (s.get('n_passed'), s.get('n_failed'), s.get('n_skipped'), s.get('n_total'))
            if t != nat['tallies']:
                bad.append(('native_tallies[%s]' % name, nat['tallies'], t))
            native_any |= bool(s.get('n_failed'))
        nat_verdicts = {}
        for i, k in enumerate(kinds):
            if k in ('disabled', 'disabledfail'):
                continue
            with sessionlib.Env(1):
                r1 = modlib.run_native(path, 'f%d:0' % i, verbose=0, style=style, config=config)
            if 'raised' in r1:
                nat_verdicts['f%d:0' % i] = 'raised ' + r1['raised']
            else:
                s1 = r1['summary']
                nat_verdicts['f%d:0' % i] = 'failed' if s1.get('n_failed') else ('passed' if s1.get('n_passed') else 'skipped')
        exp_nat = {kk: v for kk, v in exp_py.items() if kinds[int(kk[1:].split(':')[0])] not in ('disabled', 'disabledfail')}
        if nat_verdicts != exp_nat:
            bad.append(('native_verdicts[%s]' % name, exp_nat, nat_verdicts))
        # the two front ends against each other (independent of the prediction)
        for kk, v in nat_verdicts.items():
            if gp.get(kk) != v:
                bad.append(('pytest_vs_native[%s,%s]' % (name, kk), v, gp.get(kk)))
        n += len(kinds)
    exp_exit = 1 if any_failed_spec else (5 if not any(m[1]['mod'] for m in mods) else 0)
    if rec['exit'] != exp_exit or p.returncode != exp_exit:
        bad.append(('pytest_exit', exp_exit, (rec['exit'], p.returncode)))
    if (rec['exit'] not in (0, 5)) != native_any:
        bad.append(('exit_pytest_vs_native', 'both non-zero iff some doctest failed', (rec['exit'], native_any)))
    info = {'n': n}
    if bad:
        info.update(bad=[(f, repr(a), repr(b)) for f, a, b in bad[:10]], text='\n# ----\n'.join('# %s %s\n%s' % (m[0], m[1]['mod'], m[2]) for m in mods),
                    cmd=' '.join(cmd), out=p.stdout[-1500:])
    return info


def sig(info):
    return {'kind': 'front_ends', 'fields': ','.join(sorted({b[0].split('[')[0] for b in info['bad']}))}


def many_failures_phase(out):
    """both front ends on ONE module with exactly 256 failing doctests (and with 255): each must exit non-zero (a process status keeps
    8 bits: a status that counts the failures wraps to 0)"""
    import re
    import subprocess
    d = common.scratch_dir('xdv-c15many')
    for n in (255, 256):
        path = os.path.join(d, 'xdvmany15_%d.py' % n)
        with open(path, 'w') as f:
            f.write('def ok():\n    """\n    >>> 1 + 1\n    2\n    """\n')
            for i in range(n):
                f.write('\n\ndef bad%d():\n    """\n    >>> %d\n    -1\n    """\n' % (i, i))
        env = dict(os.environ)
        nat = subprocess.run([common.PY, '-m', 'xdoctest', path, 'all', '--verbose', '0'], cwd=d, env=env, stdout=subprocess.PIPE, stderr=subprocess.STDOUT, text=True)
        pyt = subprocess.run([common.PY, '-m', 'pytest', '--xdoctest', '-p', 'no:cacheprovider', '-q', '-c', '/dev/null', '--rootdir=' + d, path], cwd=d, env=env,
                             stdout=subprocess.PIPE, stderr=subprocess.STDOUT, text=True)
        out.traces += 1
        out.evaluations += 2
        bad = []
        if nat.returncode == 0 or pyt.returncode == 0:
            bad.append(('exit_status_nonzero(native,pytest)', 'both non-zero', (nat.returncode, pyt.returncode)))
        if bad:
            out.violation({'kind': 'front_ends', 'fields': ','.join(sorted(b[0].split('(')[0] for b in bad)), 'failing_doctests': n},
                          {'module': '%d failing doctests and one passing' % n, 'disagreements': [(f, repr(a), repr(b)) for f, a, b in bad],
                           'native_tail': nat.stdout[-300:], 'pytest_tail': pyt.stdout[-300:]})
    out.extra['many_failures_modules'] = [255, 256]
    common.cleanup_scratch()


def run(tier):
    out = common.Outcome('C15', tier)
    b = BOUNDS[tier]
    out.rule = ('every module of <= %d doctests over 12 outcome kinds x default options {none, +SKIP, -ELLIPSIS} x front end {native, pytest} in Session.tla; '
                '%d directories of %d modules replayed through `pytest --xdoctest` subprocesses and the native runner, styles rotating' % (b['n'], b['dirs'], b['per']))
    raws = sessionlib.run_tlc_cases(out, 'front ends<=%d' % b['n'], kinds=KINDS, maxdocs=b['n'], commands=('all',), fronts=('native', 'pytest'),
                                    opts=('none', 'skip', 'noell', 'req'))
    cases = [sessionlib.decode(r) for r in raws]
    native = {(tuple(c['mod']), c['opt']): c for c in cases if c['front'] == 'native'}
    pyt = [c for c in cases if c['front'] == 'pytest']
    for c in pyt:
        c['native'] = native[(tuple(c['mod']), c['opt'])]
    import random
    rng = random.Random(common.seed() + 15)
    jobs = []
    for i in range(b['dirs']):
        opt = ['none', 'skip', 'noell', 'req'][i % 4]
        style = ['auto', 'google', 'freeform'][(i // 4) % 3]
        pool = [c for c in pyt if c['opt'] == opt]
        jobs.append((i, opt, style, [rng.choice(pool) for _ in range(b['per'])]))
    _J['dir'] = common.scratch_dir('xdv-c15')
    sys.path.insert(0, _J['dir'])
    try:
        infos = common.parallel_map(_dir_case, jobs, chunk=1)
    finally:
        sys.path.remove(_J['dir'])
    for info in infos:
        out.traces += 1
        out.evaluations += info['n']
        if 'bad' in info:
            out.violation(sig(info), {'modules': info['text'], 'pytest_command': info.get('cmd'), 'pytest_output': info.get('out'), 'disagreements': info['bad']})
    out.nontrivial_count = len(infos)
    out.extra['doctests_compared'] = out.evaluations
    common.cleanup_scratch()
    many_failures_phase(out)
    for dev in ('PytestRunsDisabled', 'NoAnythingRanCheck'):
        sessionlib.deviation_must_fail(out, dev, kinds=KINDS, maxdocs=2, commands=('all',), fronts=('pytest',))
    out.exhaustive = False
    out.assumptions = ['force-disabled = the five spellings valid in both front ends; the pytest-only spelling `# pytest.skip` is documented to differ',
                       'pytest runs in subprocesses without the repository\'s pytest.ini (-c /dev/null)']
    return out.finish()


def replay(path):
    d = json.load(open(path))['detail']
    print(d['modules'])
    print(d.get('pytest_command'))
    print(d.get('pytest_output'))
    print('disagreements:', d['disagreements'])
    return 0
