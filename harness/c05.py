"""C05 - output matching equals the documented relation for all 32 flag settings.

spec  : specs/Match.tla (Mode="flags"): step-by-step transcription of
        check_output/normalize; TLC computes, for every got, the set of matching
        wants under each of the 32 flag sets and checks the property-level
        invariants (Reflexive, ExactWhenStrict, MonotonePositive,
        MonotoneBlankline, DifferentCoreNeverMatches).
replay: every (got, want, flags) triple of the enumerated spaces is evaluated by
        the real checker.check_output and must equal TLC's row; the
        property-level statements are re-evaluated on the implementation's rows.
trace : seeded random longer texts x random flags recorded from the real code,
        validated by specs/MatchTrace.tla.
"""
import json
import random

from . import common, matchlib, tlaval

FULL = ['A', 'B', 'U', 'R', 'SQ', 'DQ', 'SP', 'TAB', 'NL', 'CR', 'DOT', 'ANSI', 'BL']
SPACES = {
    # (label, alphabet, MaxGot, MaxWant)
    'quick': [('all-tokens', FULL, 2, 2),
              ('blank-lines', ['A', 'NL', 'BL', 'SP'], 3, 3),
              ('wildcards', ['A', 'SP', 'SQ', 'ELL'], 3, 4)],
    'thorough': [('all-tokens', FULL, 2, 2),
                 ('nine-tokens', ['A', 'U', 'SQ', 'SP', 'TAB', 'NL', 'CR', 'ANSI', 'BL'], 3, 3),
                 ('wildcards', ['A', 'B', 'SP', 'NL', 'SQ', 'ELL'], 3, 4)],
}
NRANDOM = {'quick': 3000, 'thorough': 60000}
INVS = ['Reflexive', 'ExactWhenStrict', 'MonotonePositive', 'MonotoneBlankline', 'DifferentCoreNeverMatches']
LENIENCIES = ['ELLIPSIS', 'NORMALIZE_WHITESPACE', 'IGNORE_WHITESPACE', 'NORMALIZE_REPR']

_WANTS = None


def _row(got):
    g = matchlib.to_str(got)
    row = {}
    for F in matchlib.ALL_FLAGSETS:
        rs = matchlib.runstate(F)
        row[F] = frozenset(w for w, ws in _WANTS if matchlib.impl_check_output(g, ws, rs))
    return got, row


def _space(out, label, alphabet, maxgot, maxwant):
    global _WANTS
    res = common.run_tlc('Match', matchlib.cfg(alphabet, maxgot, maxwant, 'flags', INVS), dump=True, timeout=6000)
    common.tlc_must_pass(res, 'Match flags ' + label)
    out.add_tlc(res, 'exhaustive:' + label)
    if res.violated:
        raise common.MachineryError('spec-level invariant %s violated on the unchanged spec (%s):\n%s' % (res.violated, label, res.stdout[-3000:]))
    rows = {}
    for st in tlaval.iter_dump_states(res.dump):
        if st['phase'] == 'done':
            rows[tuple(st['got'])] = {frozenset(k): frozenset(tuple(w) for w in v) for k, v in st['row'].items()}
    gots = list(matchlib.texts(alphabet, maxgot))
    if set(gots) != set(rows):
        raise common.MachineryError('dump does not contain one row per got (%d vs %d)' % (len(rows), len(gots)))
    _WANTS = [(w, matchlib.to_str(w)) for w in matchlib.texts(alphabet, maxwant)]
    impl = common.parallel_map(_row, gots, chunk=4)
    nontriv = 0
    for got, row in impl:
        spec = rows[got]
        g = matchlib.to_str(got)
        for F in matchlib.ALL_FLAGSETS:
            if row[F] != spec[F]:
                for w in sorted(row[F] ^ spec[F])[:2]:
                    out.violation({'kind': 'relation'},
                                  {'got': g, 'want': matchlib.to_str(w), 'flags': sorted(F), 'impl': w in row[F], 'spec': w in spec[F],
                                   'space': label, 'explanation': 'check_output differs from the relation TLC computed from Match.tla'})
        # property-level statements, evaluated on the implementation's own rows
        for F in matchlib.ALL_FLAGSETS:
            if len(got) <= maxwant and got not in row[F]:
                out.violation({'kind': 'reflexive'}, {'got': g, 'flags': sorted(F), 'explanation': 'identical texts do not match'})
            for l in LENIENCIES:
                if l not in F and not row[F] <= row[F | {l}]:
                    for w in sorted(row[F] - row[F | {l}]):
                        ws = matchlib.to_str(w)
                        sig = {'kind': 'monotone', 'flag': l, 'norm_repr': 'NORMALIZE_REPR' in F}
                        if l == 'ELLIPSIS':
                            sig['got_has_ellipsis'] = '...' in g
                        if l == 'NORMALIZE_WHITESPACE':
                            x = ws.strip()
                            sig['want_inner_edge_ws'] = (len(x) >= 2 and x[0] in '\'"' and x[-1] == x[0] and x[1:-1] != x[1:-1].strip())
                        if out.violation(sig, {'got': g, 'want': ws, 'flags': sorted(F), 'switched_on': l,
                                               'explanation': 'switching a leniency on turned a match into a mismatch'}):
                            break
            if 'DONT_ACCEPT_BLANKLINE' in F:
                lenient = F - {'DONT_ACCEPT_BLANKLINE'}
                if not row[F] <= row[lenient]:
                    for w in sorted(row[F] - row[lenient]):
                        ws = matchlib.to_str(w)
                        sig = {'kind': 'monotone_blankline', 'got_has_marker': 'BL' in got,
                               'want_marker_next_to_cr': ('<BLANKLINE>\r' in ws or '\r<BLANKLINE>' in ws)}
                        if out.violation(sig, {'got': g, 'want': ws, 'flags': sorted(F),
                                               'explanation': 'accepting <BLANKLINE> (DONT_ACCEPT_BLANKLINE off) turned a match into a mismatch'}):
                            break
        nontriv += sum(1 for w, _ in _WANTS if w and w != got) * 32
    out.traces += len(gots)
    out.evaluations += len(gots) * len(_WANTS) * 32
    out.nontrivial_count += nontriv
    out.extra.setdefault('spaces', []).append({'label': label, 'alphabet': alphabet, 'gots': len(gots), 'wants': len(_WANTS), 'triples': len(gots) * len(_WANTS) * 32})
    got, row = impl[len(impl) // 2]
    out.sample({'space': label, 'got': matchlib.to_str(got), 'flags': ['NORMALIZE_WHITESPACE'],
                'matching_wants': sorted(matchlib.to_str(w) for w in row[frozenset(['NORMALIZE_WHITESPACE'])])[:8]})


def run(tier):
    out = common.Outcome('C05', tier)
    out.rule = ('exhaustive: every got x every want of the listed token spaces x all 32 flag sets; a case is one (got, want, flags) triple, '
                'non-trivial when the want is non-empty and differs from the got (so the normalisation pipeline runs); '
                'random: seeded longer texts x random flag sets')
    for label, alphabet, mg, mw in SPACES[tier]:
        _space(out, label, alphabet, mg, mw)
    out.exhaustive = True

    rng = random.Random(common.seed() * 104729 + 5)
    events = []
    seen = set()
    alphabet = FULL + ['ELL']
    n = NRANDOM[tier]
    ntrue = 0
    while len(events) < n:
        g = [rng.choice(alphabet[:-1]) for _ in range(rng.randint(1, 9))]
        w = list(g)
        for _ in range(rng.randint(0, 3)):
            r = rng.random()
            if r < 0.3 and w:
                i = rng.randrange(len(w)); j = min(len(w), i + rng.randint(0, 3)); w[i:j] = ['ELL']
            elif r < 0.38:
                # an empty line of the got written as the marker (first line, middle, last line)
                spots = [i for i in range(len(w) + 1) if (i == 0 or w[i - 1] == 'NL') and (i == len(w) or w[i] == 'NL')]
                if spots:
                    w.insert(rng.choice(spots), 'BL')
            elif r < 0.44:
                # a quoted literal of the got written with a string prefix, coloured: prefix letter and colour code next to each other
                spots = [i for i in range(len(w)) if w[i] in ('SQ', 'DQ')]
                if spots:
                    i = rng.choice(spots)
                    w[i:i] = rng.choice([['ANSI', 'B'], ['ANSI', 'U'], ['B', 'ANSI'], ['U'], ['B'], ['ANSI']])
            elif r < 0.5:
                w.insert(rng.randrange(len(w) + 1), rng.choice(['SP', 'TAB', 'NL', 'BL', 'ANSI', 'SQ', 'DQ', 'U', 'B', 'CR']))
            elif r < 0.65 and w:
                del w[rng.randrange(len(w))]
            elif r < 0.8 and w:
                w[rng.randrange(len(w))] = rng.choice(alphabet)
            elif w:
                w = [rng.choice(['SQ', 'DQ'])] + w + [rng.choice(['SQ', 'DQ'])]
        F = frozenset(f for f in matchlib.FLAGS if rng.random() < 0.5)
        key = (tuple(g), tuple(w), F)
        if key in seen:
            continue
        seen.add(key)
        r = matchlib.impl_check_output(matchlib.to_str(g), matchlib.to_str(w), matchlib.runstate(F))
        ntrue += r
        events.append({'k': 'check_output', 'got': g, 'want': w, 'flags': sorted(F), 'res': r})
    # long texts with 45..70 blanks written differently in the want
    nlong = 0
    for g, w in matchlib.derive_long_blank_pairs(rng, 60 if tier == 'quick' else 800):
        for F in (frozenset(['IGNORE_WHITESPACE']), frozenset(['NORMALIZE_WHITESPACE']), frozenset(['IGNORE_WHITESPACE', 'ELLIPSIS', 'NORMALIZE_REPR'])):
            r = matchlib.impl_check_output(matchlib.to_str(g), matchlib.to_str(w), matchlib.runstate(F))
            events.append({'k': 'check_output', 'got': list(g), 'want': list(w), 'flags': sorted(F), 'res': r})
            nlong += 1
    out.extra['long_blank_triples'] = nlong
    bad = matchlib.validate_trace(events, out, 'random-longer')
    for e in bad[:10]:
        out.violation({'kind': 'trace_check_output'},
                      {'got': matchlib.to_str(e['got']), 'want': matchlib.to_str(e['want']), 'flags': e['flags'], 'impl': e['res'],
                       'explanation': 'recorded check_output call is not a behaviour of MatchTrace.tla'})
    out.traces += len(events)
    out.evaluations += len(events)
    out.nontrivial_count += len(events)
    out.extra['random_triples'] = len(events)
    out.extra['random_triples_matching'] = ntrue
    e = events[0]
    out.sample({'random': {'got': matchlib.to_str(e['got']), 'want': matchlib.to_str(e['want']), 'flags': e['flags'], 'impl': e['res']}})
    out.assumptions = ['one representative colour sequence (ESC[31m) and one marker spelling; both are atoms of the token model',
                       'the property-level statements are read modulo the steps the property lists as unconditional (DESIGN.md section 7)']
    return out.finish()


def replay(path):
    d = json.load(open(path))['detail']
    g, w = d['got'], d.get('want', d['got'])
    F = set(d.get('flags', []))
    print('got=%r want=%r flags=%s' % (g, w, sorted(F)))
    print('check_output ->', matchlib.impl_check_output(g, w, matchlib.runstate(F)))
    if 'switched_on' in d:
        print('with %s on ->' % d['switched_on'], matchlib.impl_check_output(g, w, matchlib.runstate(F | {d['switched_on']})))
    if 'DONT_ACCEPT_BLANKLINE' in F:
        print('accepting blankline ->', matchlib.impl_check_output(g, w, matchlib.runstate(F - {'DONT_ACCEPT_BLANKLINE'})))
    print('recorded:', {k: d[k] for k in d if k not in ('got', 'want', 'flags')})
    return 0
