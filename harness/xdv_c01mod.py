"""Module under test for module-backed C01 runs: its globals collide with the names the generated programs bind."""

x1 = 'module x1'
y1 = 'module y1'
a1 = b1 = _i1 = 'module'

def f1():
    return "module f1"

class C1(object):
    a = "module"

class K1(object):
    z = "module"

x2 = 'module x2'
y2 = 'module y2'
a2 = b2 = _i2 = 'module'

def f2():
    return "module f2"

class C2(object):
    a = "module"

class K2(object):
    z = "module"

x3 = 'module x3'
y3 = 'module y3'
a3 = b3 = _i3 = 'module'

def f3():
    return "module f3"

class C3(object):
    a = "module"

class K3(object):
    z = "module"

x4 = 'module x4'
y4 = 'module y4'
a4 = b4 = _i4 = 'module'

def f4():
    return "module f4"

class C4(object):
    a = "module"

class K4(object):
    z = "module"

x5 = 'module x5'
y5 = 'module y5'
a5 = b5 = _i5 = 'module'

def f5():
    return "module f5"

class C5(object):
    a = "module"

class K5(object):
    z = "module"

x6 = 'module x6'
y6 = 'module y6'
a6 = b6 = _i6 = 'module'

def f6():
    return "module f6"

class C6(object):
    a = "module"

class K6(object):
    z = "module"

x7 = 'module x7'
y7 = 'module y7'
a7 = b7 = _i7 = 'module'

def f7():
    return "module f7"

class C7(object):
    a = "module"

class K7(object):
    z = "module"

x8 = 'module x8'
y8 = 'module y8'
a8 = b8 = _i8 = 'module'

def f8():
    return "module f8"

class C8(object):
    a = "module"

class K8(object):
    z = "module"

x9 = 'module x9'
y9 = 'module y9'
a9 = b9 = _i9 = 'module'

def f9():
    return "module f9"

class C9(object):
    a = "module"

class K9(object):
    z = "module"

