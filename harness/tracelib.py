"""Code -> spec: record DocTest.run executions with the probe and validate them against DocRunTrace.tla."""
import glob
import json
import os
import subprocess
import sys

from . import common

DEFAULTS = {'px': -1, 'ok': 'true', 'ndir': 0, 'inline': False, 'skip': False, 'nreq': 0, 'gskip': False, 'gnreq': 0, 'noverlay': 0,
            'haswant': False, 'ignore_want': False, 'res': False, 'exc': 'none', 'restored': True, 'swapped': True, 'base': False, 'nun': 0,
            'passed': False, 'failed': False, 'skipped': False, 'nparts': 0, 'nskipped': 0, 'nlogged': 0, 'kind': 'return',
            'on_error': 'return', 'mode': 'native', 'ns_empty': True, 'has_exc': False, 'failed_px': -1, 'internal': False}
KEEP = ['e', 'run'] + sorted(DEFAULTS)


def record_env(trace_prefix):
    env = dict(os.environ)
    env['XDOCTEST_VERIF_TRACE'] = trace_prefix
    site = os.path.join(common.VERIF, 'harness', 'site')
    env['PYTHONPATH'] = os.pathsep.join([common.SRC, common.VERIF, site] + ([env['PYTHONPATH']] if env.get('PYTHONPATH') else []))
    env['PYTHONHASHSEED'] = '0'
    return env


def load_runs(trace_prefix):
    """-> list of runs, each a list of normalised events (complete runs only: RunEnter .. RunExit)"""
    runs = {}
    order = []
    for path in sorted(glob.glob(trace_prefix + '.*')):
        with open(path) as f:
            for line in f:
                try:
                    ev = json.loads(line)
                except ValueError:
                    continue
                rid = ev['run']
                if rid not in runs:
                    runs[rid] = []
                    order.append(rid)
                rec = {}
                for k in KEEP:
                    if k in ev:
                        rec[k] = ev[k]
                    else:
                        rec[k] = DEFAULTS[k]
                rec['px'] = int(rec['px'])
                runs[rid].append(rec)
    out = []
    incomplete = 0
    for rid in order:
        evs = runs[rid]
        if evs and evs[0]['e'] == 'RunEnter' and evs[-1]['e'] == 'RunExit':
            out.append(evs)
        else:
            incomplete += 1
    return out, incomplete


CFG = 'SPECIFICATION Spec\nPOSTCONDITION TraceAccepted\nCHECK_DEADLOCK FALSE\n'


def validate(out, runs, label, max_rounds=12, spec='DocRunTrace'):
    """TLC over the concatenation of the runs; a rejected run is reported and removed, the rest is checked again"""
    total_events = sum(len(r) for r in runs)
    remaining = list(runs)
    rejected = []
    rounds = 0
    while remaining and rounds < max_rounds:
        rounds += 1
        work = common.scratch_dir('xdv-trace')
        path = os.path.join(work, 'trace.ndjson')
        with open(path, 'w') as f:
            for r in remaining:
                for ev in r:
                    f.write(json.dumps(ev) + '\n')
        res = common.run_tlc(spec, CFG, workers=1, env={'TRACE_FILE': path}, timeout=1800, deque=True)
        out.add_tlc(res, 'trace:%s round %d' % (label, rounds))
        matched = None
        for line in res.stdout.splitlines():
            if 'XDV-MATCHED' in line:
                nums = [int(x) for x in line.replace('<<', ' ').replace('>>', ' ').replace(',', ' ').split() if x.lstrip('-').isdigit()]
                if len(nums) >= 2:
                    matched = nums[0]
        if matched is None:
            raise common.MachineryError('trace validation (%s): TLC gave no verdict:\n%s' % (label, res.stdout[-2500:]))
        n = sum(len(r) for r in remaining)
        if matched >= n:
            break
        # find the run holding event number matched+1
        acc = 0
        for idx, r in enumerate(remaining):
            if acc + len(r) > matched:
                at = matched - acc
                rejected.append((r, at))
                remaining = remaining[:idx] + remaining[idx + 1:]
                break
            acc += len(r)
        common.cleanup_scratch()
    common.cleanup_scratch()
    out.extra['trace_runs_validated[%s]' % label] = len(runs)
    out.extra['trace_events_validated[%s]' % label] = total_events
    out.traces += len(runs)
    for r, at in rejected:
        ev = r[at]
        out.violation({'kind': 'trace_rejected' if spec == 'DocRunTrace' else 'session_trace_rejected', 'event': ev['e']},
                      {'rejected_event_index': at, 'rejected_event': ev, 'events_of_the_run': r[:at + 1][-14:],
                       'explanation': 'the recorded execution is not a behaviour of ' + spec + '.tla: no action of the trace specification is enabled for this event in the state reached by the preceding events'})
    return len(rejected)


SESS_DEFAULTS = {'cmd': 'none', 'i': 0, 'disabled': False, 'named': False, 'idxs': [], 'outcome': 'none', 'nP': 0, 'nF': 0, 'nS': 0, 'nT': 0, 'failed': [],
                 'kind': 'return', 'exc': 'none', 'action': 'none', 'nfailed': -1, 'code': -1}


def load_sessions(trace_prefix):
    """-> list of sessions (SessEnter .. SessExit [MainExit]), each a list of normalised events"""
    sessions = {}
    order = []
    for path in sorted(glob.glob(trace_prefix + '-sess.*')):
        with open(path) as f:
            for line in f:
                try:
                    ev = json.loads(line)
                except ValueError:
                    continue
                sid = ev['sess']
                if sid not in sessions:
                    sessions[sid] = []
                    order.append(sid)
                rec = {'e': ev['e']}
                for k, dflt in SESS_DEFAULTS.items():
                    rec[k] = ev.get(k, dflt)
                sessions[sid].append(rec)
    out = []
    incomplete = 0
    for sid in order:
        evs = sessions[sid]
        if evs and evs[0]['e'] == 'SessEnter' and evs[-1]['e'] in ('SessExit', 'MainExit'):
            out.append(evs)
        else:
            incomplete += 1
    return out, incomplete


def validate_sessions(out, prefix, label, minimum=1):
    sessions, incomplete = load_sessions(prefix)
    if len(sessions) < minimum:
        raise common.MachineryError('session trace recording (%s) produced only %d sessions' % (label, len(sessions)))
    out.extra['session_trace_incomplete[%s]' % label] = incomplete
    return validate(out, sessions, 'sessions:' + label, spec='SessionTrace')


def record_library_doctests(prefix, modules, timeout=900):
    """run the library's own doctests under the probe (`python -m xdoctest <module> all`)"""
    env = record_env(prefix)
    code = ('import sys, harness.probe\n'
            'from xdoctest import runner\n'
            'for m in sys.argv[1:]:\n'
            '    try:\n'
            '        runner.doctest_module(m, command="all", argv=[], verbose=0)\n'
            '    except BaseException as ex:\n'
            '        print("ERR", m, repr(ex)[:200])\n')
    p = subprocess.run([common.PY, '-c', code] + list(modules), env=env, cwd=common.scratch_dir('xdv-rec'), stdout=subprocess.PIPE, stderr=subprocess.STDOUT,
                       text=True, timeout=timeout)
    return p.stdout


def record_pytest(prefix, test_files, timeout=1500):
    env = record_env(prefix)
    cmd = [common.PY, '-m', 'pytest', '-q', '-p', 'no:cacheprovider', '-p', 'harness.probe', '--timeout=600'] + list(test_files)
    p = subprocess.run(cmd, env=env, cwd=common.REPO, stdout=subprocess.PIPE, stderr=subprocess.STDOUT, text=True, timeout=timeout)
    return p.stdout


LIB_MODULES = {'quick': ['xdoctest.directive', 'xdoctest.checker', 'xdoctest.parser', 'xdoctest.doctest_part', 'xdoctest.core', 'xdoctest.runner',
                         'xdoctest.static_analysis', 'xdoctest.doctest_example'],
               'thorough': ['xdoctest']}
TEST_FILES = {'quick': ['tests/test_errors.py', 'tests/test_directive.py', 'tests/test_traceback.py', 'tests/test_doctest_example.py', 'tests/test_runner.py',
                        'tests/test_cases.py', 'tests/test_core.py', 'tests/test_limitations.py'],
              'thorough': ['tests']}


def probe_usable(out):
    """False (and a note in the evidence) when the xdoctest under test lacks a function the probe wraps"""
    from . import probe
    try:
        missing = probe.missing_targets()
    except Exception as ex:
        missing = ['probe could not inspect xdoctest: %r' % (ex,)]
    if missing:
        out.extra['trace_validation_skipped'] = 'wrap targets missing in the code under test: ' + ', '.join(missing)
        out.assumptions.append('trace validation skipped (probe wrap targets missing: %s); replay phases unaffected' % ', '.join(missing))
        return False
    return True


def suite_phase(out, tier):
    """traces of the repository's own doctests and tests (executions the suite already performs) against DocRunTrace.tla"""
    if not probe_usable(out):
        return 0
    d = common.scratch_dir('xdv-suite')
    prefix = os.path.join(d, 'tr')
    log1 = record_library_doctests(prefix, LIB_MODULES[tier])
    log2 = record_pytest(prefix, TEST_FILES[tier])
    runs, incomplete = load_runs(prefix)
    if len(runs) < 20:
        raise common.MachineryError('suite trace recording produced only %d runs:\n%s\n%s' % (len(runs), log1[-800:], log2[-800:]))
    out.extra['suite_trace_incomplete_runs'] = incomplete
    n = validate(out, runs, 'repository suite')
    return n


def traced_replay(out, label, parts, maxparts, limit=6000, **kw):
    """DocRun terminal states replayed into the real code WITH the probe on; the recorded runs must be behaviours of DocRunTrace.tla"""
    from . import runlib, probe
    if not probe_usable(out):
        return 0
    d = common.scratch_dir('xdv-rtrace')
    prefix = os.path.join(d, 'tr')
    os.environ['XDOCTEST_VERIF_TRACE'] = prefix
    probe.install()
    try:
        cfg = runlib.docrun_cfg(parts, maxparts, runlib.DOCRUN_INVS, **kw)
        res = common.run_tlc('MC_DocRun', cfg, dump=True, timeout=1200)
        common.tlc_must_pass(res, 'DocRun traced replay ' + label)
        tmp = common.Outcome(out.prop, out.tier)          # replay disagreements are the business of the main phase
        runlib.replay_dump(tmp, res.dump, runlib.default_sig, lambda i: True, limit=limit)
    finally:
        os.environ.pop('XDOCTEST_VERIF_TRACE', None)
    if probe._out[0] is not None:
        probe._out[0].flush()
    runs, incomplete = load_runs(prefix)
    if not runs:
        raise common.MachineryError('traced replay recorded no run')
    return validate(out, runs, label)
