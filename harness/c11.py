"""C11 - runs are isolated: a doctest behaves the same whatever ran before it.

spec  : specs/Session.tla, history mode.  The doctests of a module are
        collected once; then any of them may be run next (HistRun), again and
        again, in any order, and the environment may change between runs
        (SetEnv).  Doctest kinds: binds a name / passes only if that name is not
        visible / rebinds a global of the module under test / passes only if the
        module global still has its value / ends with block +SKIP / block
        +REQUIRES(unmet) / switched report style / ends with want-less output
        and takes another path when the environment changes (exposes a stale
        buffer of unmatched output) / replaces sys.stdout / changes the warning
        filters / fails by output.  The process state that could carry over is
        explicit (visible names, module globals, default directive state,
        per-object unmatched buffer).  Invariants: Isolation (every run of every
        history has the outcome the doctest has alone), ModuleGlobalsKept,
        DefaultsKept.
replay: each history is replayed in one process on the rendered module: the
        outcome and the recorded stdout of every run must be the solo ones; the
        module global, DEFAULT_RUNTIME_STATE, sys.stdout and the warning
        filters are compared with their initial values at the end.
"""
import copy
import io
import os
import sys
import warnings
import zlib

from . import common, sessionlib

KINDS = ('pass', 'failout', 'bind', 'probe', 'rebind', 'readg', 'leaveskip', 'leavereq', 'reportstyle', 'trail', 'swapout', 'filters', 'warns', 'reqsub', 'reqpkg', 'bumpfail')
BOUNDS = {'quick': dict(docs=3, hist=4, limit=10000), 'thorough': dict(docs=3, hist=4, limit=120000)}
_J = {}


def _one(raw):
    from xdoctest import core, directive
    case = sessionlib.decode(raw)
    rot = (zlib.crc32(raw.encode()) + _J['seed']) % 100003
    kinds = case['mod']
    layout = ['google', 'freeform'][rot % 2]
    src = sessionlib.render_module(kinds, rot, layout=layout)
    modname = 'xdvh_%d_%08x' % (os.getpid(), zlib.crc32(raw.encode()))
    path = os.path.join(_J['dir'], modname + '.py')
    with open(path, 'w') as f:
        f.write(src)
    bad = []
    defaults0 = copy.deepcopy(directive.DEFAULT_RUNTIME_STATE)
    cache = getattr(directive, '_MODNAME_EXISTS_CACHE', None)
    if isinstance(cache, dict):
        cache.clear()              # every history starts like a fresh process: no remembered answers about modules
    filters0 = list(warnings.filters)
    stdout0 = sys.stdout
    try:
        with warnings.catch_warnings():
            warnings.simplefilter('ignore')
            examples = list(core.parse_doctestables(path, style=['auto', 'freeform'][rot % 2] if layout == 'freeform' else ['auto', 'google', 'freeform'][rot % 3],
                                                    analysis='static'))
        byname = {e.callname: e for e in examples}
        if sorted(byname) != ['f%d' % i for i in range(len(kinds))]:
            raise common.MachineryError('collection of the rendered module gave %r' % sorted(byname))
        with sessionlib.Env(1):
            for step, (i, env, outcome) in enumerate(case['hist']):
                if i == 0:
                    os.environ['XDV_E'] = str(env)
                    continue
                os.environ['XDV_E'] = str(env)
                e = byname['f%d' % (i - 1)]
                e.mode = ['native', 'pytest'][rot % 2]            # 'pytest' is the default mode of a collected DocTest
                e.config['colored'] = False
                sink = io.StringIO()
                sys.stdout = sink
                try:
                    with warnings.catch_warnings():
                        warnings.simplefilter('default')
                        inner_filters = list(warnings.filters)
                        # both ways of asking for errors rotate: a failing run that RAISES leaves by another path than one that returns
                        s = e.run(verbose=0, on_error=['return', 'raise'][(rot + step) % 2])
                        if warnings.filters != inner_filters:
                            bad.append(('warning_filters_after_run[%d:%s]' % (step, kinds[i - 1]), 'restored', 'changed'))
                    got = 'failed' if s['failed'] else ('passed' if s['passed'] else 'skipped')
                except BaseException as ex:
                    if type(ex).__name__ == 'Skipped':
                        got = 'skipped'                  # pytest mode: everything skipped
                    elif (rot + step) % 2 == 1 and isinstance(ex, Exception):
                        got = 'failed'                   # on_error='raise': the failure leaves as an exception
                    else:
                        got = 'raised %r' % (ex,)
                finally:
                    if sys.stdout is not sink:
                        bad.append(('stdout_after_run[%d:%s]' % (step, kinds[i - 1]), 'restored', 'replaced'))
                    sys.stdout = stdout0
                if got != outcome:
                    bad.append(('outcome[%d:%s,env=%d]' % (step, kinds[i - 1], env), outcome, got))
                out_txt = ''.join(e.logged_stdout[k] for k in sorted(e.logged_stdout))
                exp_txt = sessionlib.kind_stdout(kinds[i - 1], env)
                if out_txt != exp_txt:
                    bad.append(('stdout[%d:%s,env=%d]' % (step, kinds[i - 1], env), exp_txt, out_txt))
                if sink.getvalue():
                    bad.append(('stdout_leak[%d:%s]' % (step, kinds[i - 1]), '', sink.getvalue()[:100]))
        m = sys.modules.get(modname)
        if m is not None and getattr(m, 'G', 1) != 1:
            bad.append(('module_global_G', 1, m.G))
        if m is not None and hasattr(m, 'N'):
            bad.append(('module_namespace', 'no N', 'N bound in the module'))
        if directive.DEFAULT_RUNTIME_STATE != defaults0:
            bad.append(('DEFAULT_RUNTIME_STATE', 'unchanged', repr(directive.DEFAULT_RUNTIME_STATE)[:300]))
            directive.DEFAULT_RUNTIME_STATE.clear()
            directive.DEFAULT_RUNTIME_STATE.update(defaults0)
    finally:
        sys.stdout = stdout0
        warnings.filters[:] = filters0
        os.unlink(path)
        sys.modules.pop(modname, None)
    info = {'key': (tuple(kinds), tuple((h[0], h[1]) for h in case['hist']))}
    if bad:
        info.update(bad=[(f, repr(a), repr(b)) for f, a, b in bad], text=src, hist=case['hist'])
    return info


def sig(info):
    return {'kind': 'history', 'fields': ','.join(sorted({b[0].split('[')[0] for b in info['bad']}))}


def run(tier):
    out = common.Outcome('C11', tier)
    b = BOUNDS[tier]
    out.rule = ('every history of <= %d events (runs in any order with repetition, environment changes) over every module of <= %d doctests drawn from 12 kinds '
                'in Session.tla; one case per finished history; replay sampled where stated' % (b['hist'], b['docs']))
    raws = sessionlib.run_tlc_cases(out, 'histories', kinds=KINDS, maxdocs=b['docs'], mindocs=1, maxhist=b['hist'], commands=('all',), fronts=('native',))
    if b['limit'] and len(raws) > b['limit']:
        import random
        raws = random.Random(common.seed()).sample(raws, b['limit'])
        out.extra['replay_sampled'] = True
    _J['seed'] = common.seed()
    _J['dir'] = common.scratch_dir('xdv-c11')
    sys.path.insert(0, _J['dir'])
    try:
        infos = common.parallel_map(_one, raws, chunk=20)
    finally:
        sys.path.remove(_J['dir'])
    for info in infos:
        out.traces += 1
        out.evaluations += 1
        out.count_nontrivial(info['key'])
        if 'bad' in info:
            out.violation(sig(info), {'module_source': info['text'], 'history(index,env,predicted)': info['hist'], 'disagreements': info['bad']})
    common.cleanup_scratch()
    for dev in ('ModuleDictAliased', 'ShallowDefaults', 'SharedRunstate', 'NoUnmatchedReset', 'NoFilterRestore', 'NegativeAnswerSpreads', 'NamespaceSurvivesFailure'):
        sessionlib.deviation_must_fail(out, dev, kinds=KINDS, maxdocs=2, mindocs=1, maxhist=3, commands=('all',), fronts=('native',))
    out.exhaustive = not out.extra.get('replay_sampled', False)
    out.assumptions = ['the solo outcome and stdout of each kind are known by construction (the same templates pass the C10/C15 front-end checks)',
                       'mutation of objects reachable from the module (as opposed to rebinding its globals) is outside the property']
    return out.finish()


def replay(path):
    import json
    d = json.load(open(path))['detail']
    print(d['module_source'])
    print('history:', d['history(index,env,predicted)'])
    print('disagreements:', d['disagreements'])
    return 0
