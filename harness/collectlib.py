"""Rendering of Collect.tla modules and comparison with the real collectors."""
import os
import sys
import warnings
import zlib

from . import common, tlaval

QUOTES = {'d3': ('"""', '"""'), 's3': ("'''", "'''"), 'r': ('r"""', '"""'), 'R': ('R"""', '"""'), 'u': ("u'''", "'''"), 'one': ('"', '"')}
IMPORT_LINE = ('import functools, contextlib; _deco = lambda f: f; '
               '_wraps = lambda f: functools.wraps(f)(lambda *a, **k: f(*a, **k)); from harness.xdv_imported import imported_func, ImportedClass, foreign_wraps')


def decode(raw):
    moddoc, items, fl, visit, decl, summary = tlaval.parse_value(raw)
    if isinstance(summary, dict):
        summary = [summary[k] for k in sorted(summary)]
    return {'moddoc': dict(moddoc), 'items': [dict(i, doc=dict(i['doc'])) for i in items], 'fl': [tuple(l) for l in fl],
            'visit': {tuple(t) for t in visit}, 'decl': {tuple(t) for t in decl}, 'summary': list(summary)}


def item_name(items, x):
    """x: 1-based index"""
    it = items[x - 1]
    if it['deco'] in ('setter', 'deleter'):
        for y in range(x - 1, 0, -1):
            if items[y - 1]['deco'] == 'property' and items[y - 1]['depth'] == it['depth']:
                return item_name(items, y)
    if it['k'] == 'class':
        return 'K%d' % x
    return 'f%d' % x


def src_lines(g, nsrc, rot=0):
    if nsrc == 1:
        return ['>>> print(1 // (2 - %d))' % g]
    if rot % 3 == 1:
        # the failing code is a helper defined by the doctest itself: the reported line is the calling line
        return ['>>> def h%d(z):' % g, '...     return 1 // z', '>>> print(h%d(2 - %d))' % (g, g)]
    if rot % 3 == 2:
        # cleanup code runs after the raising line: the reported line is still the line that raised
        return ['>>> try:', '...     print(1 // (2 - %d))' % g, '... finally: y%d = 0' % g]
    if rot % 7 == 3:
        # the exception raised at run time carries a line number of its own (a SyntaxError from compile(): line 1 of THAT text,
        # a json error likewise): the reported line is the line of the doctest statement
        return ['>>> y%d = [1,' % g, '...       2]', ">>> print(eval(compile('1 +' if %d == 2 else '1', 'inner text', 'eval')))" % g]
    if rot % 7 in (1, 5):
        # a statement the parser accepts and compile() rejects (return / break outside a function or loop): the error is raised
        # when the part is compiled; its column must not be mistaken for its line
        return ['>>> y%d = [1,' % g, '...       2]', ('>>> if y%d: return y%d' % (g, g) if rot % 7 == 1 else '>>> break') if g == 2 else '>>> print(1)']
    return ['>>> y%d = [1,' % g, '...       2]', '>>> print(1 // (2 - %d))' % g][:nsrc]


def src_fail_type(nsrc, rot=0):
    """name of the exception a failing group raises"""
    if nsrc == 3 and rot % 3 not in (1, 2) and rot % 7 in (1, 3, 5):
        return 'SyntaxError'
    return 'ZeroDivisionError'


def src_fail_index(nsrc, rot=0):
    """index (within the source lines of a group) of the line a failure of that group is reported at"""
    if nsrc == 3 and rot % 3 == 2:
        return 1
    return nsrc - 1


def want_lines(g, nwant):
    return ['1', 'extra line'][:nwant]


SKIP_WORDS = ['Benchmark:', 'Script:', 'DisableDoctest:', 'DisableExample:', 'SkipDoctest:', 'Ignore:', 'Sympy:', 'BENCHMARK:', 'script:',
              'Timings of an old machine. Benchmark:', 'ignore:  ']


def doc_text(dl_t, g, j, doc, rot):
    """text of one docstring line of type t (without opening/closing quotes)"""
    block_indent = '    ' if doc['kind'] == 'goog' else ''
    if dl_t == 'prose':
        return 'Some prose text %d.' % j
    if dl_t == 'blank':
        return ''
    if dl_t == 'skiphdr':
        # freeform parsing switches the following group of prompt lines off when the text in front of it ends with one of
        # these words (compared in lower case)
        return SKIP_WORDS[(rot + g + j) % len(SKIP_WORDS)]
    if dl_t == 'tag':
        # the tags of example blocks: Example / Examples / Doctest, single or double colon, blanks before the colon allowed
        return ['Example:', 'Doctest:', 'Examples:', 'Example::', 'Doctest::', 'Examples ::', 'Example :'][(rot + g) % 7]
    if dl_t == 'inprose':
        return '    an explanation inside the block'
    if dl_t == 'othertag':
        return 'Args:'
    if dl_t == 'otherbody':
        return '    a (int): something'
    if dl_t == 'src':
        return block_indent + src_lines(g, doc['nsrc'], rot)[j - 1]
    if dl_t == 'want':
        return block_indent + want_lines(g, doc['nwant'])[j - 1]
    raise KeyError(dl_t)


# clause kinds of Collect.tla: the lines of the statement in front of the clause header, and the header; every clause body runs at import
CLAUSE_PRE = {'exc': ['try: raise ValueError("clause")'], 'telse': ['try: pass', 'except Exception: pass'], 'fin': ['try: pass'], 'case': ['match 1:'],
              'ifelse': ['if False: pass'], 'forelse': ['for _xdv in (): pass'], 'for': []}
CLAUSE_HEAD = {'exc': 'except ValueError:', 'telse': 'else:', 'fin': 'finally:', 'case': ' case 1:', 'ifelse': 'else:', 'forelse': 'else:', 'for': 'for _xdv in [0]:'}


IF_TESTS = ['if True:', "if __import__('sys').version_info >= (3, 0):", "if __name__ != '__main__':", 'if 1 == 1:', "if '__main__' != __name__:",
            "if not __name__ == '__main__':", 'if 0 < 1 < 2:', "if __name__ == __name__ != '__main__':", "if __name__ in (__name__, '__main__'):",
            "if len('__main__') == 8:", "if __name__ == '__main__' or True:"]


def render(case, rot=0):
    """-> list of file lines"""
    items = case['items']
    out = []
    for (t, it, a, dt, dg, dj) in case['fl']:
        item = items[it - 1] if it > 0 else None
        ind = '    ' * item['depth'] if item else ''
        if t == 'blank':
            out.append('')
        elif t == 'import':
            out.append(IMPORT_LINE)
        elif t == 'deco_extra':
            if item['deco'] in ('setter', 'deleter') and (rot + it) % 2:
                # the further decorator stands BELOW the .setter / .deleter line (as in @x.setter / @abstractmethod / def x)
                out.append(ind + '@%s.%s' % (item_name(items, it), item['deco']))
            else:
                out.append(ind + '@_deco')
        elif t == 'deco':
            d = item['deco']
            name = item_name(items, it)
            if d in ('setter', 'deleter') and item['nd'] >= 1 and (rot + it) % 2:
                out.append(ind + '@_deco')
                continue
            out.append(ind + {'plain': '@_deco', 'property': '@property', 'setter': '@%s.setter' % name, 'deleter': '@%s.deleter' % name,
                              'static': '@staticmethod', 'classm': '@classmethod',
                              # a wraps-style decorator defined in this module, imported from another one, or from the standard library
                              'wraps': ['@_wraps', '@foreign_wraps', '@contextlib.contextmanager'][(rot + it) % 3]}[d])
        elif t in ('head', 'head1', 'head2'):
            k = item['k']
            name = item_name(items, it)
            if k in ('def', 'adef'):
                kw = 'async def' if k == 'adef' else 'def'
                if t == 'head':
                    out.append(ind + '%s %s(a=1, b=2):' % (kw, name))
                elif t == 'head1':
                    out.append(ind + '%s %s(a=1,' % (kw, name))
                else:
                    out.append(ind + ' ' * (len(kw) + len(name) + 2) + 'b=2):')
            elif k == 'class':
                # a module-level class may derive from an earlier module-level class (rotating): what a subclass inherits -
                # the base's docstring, its methods - is not defined by the subclass and must not be collected for it
                base = 'object'
                if item['depth'] == 0 and rot % 3 != 0:
                    earlier = [y for y in range(1, it) if items[y - 1]['k'] == 'class' and items[y - 1]['depth'] == 0]
                    if earlier:
                        base = item_name(items, earlier[rot % len(earlier)])
                out.append(ind + 'class %s(%s):' % (name, base))
            elif k == 'iftrue':
                # any condition that is not the main guard (all true at import): comparisons whose left side is not a name,
                # comparisons of __name__ that are not `== '__main__'`, chained and negated ones
                out.append(ind + IF_TESTS[(rot + it) % len(IF_TESTS)])
            elif k == 'ifmain':
                out.append(ind + ["if __name__ == '__main__':", 'if __name__ == "__main__":'][rot % 2])
            elif k == 'try':
                out.append(ind + 'try:')
            elif k == 'with':
                out.append(ind + 'with contextlib.nullcontext():')
            elif k in CLAUSE_HEAD:
                out.append(ind + CLAUSE_HEAD[k])
        elif t == 'pre':
            out.append(ind + CLAUSE_PRE[item['k']][a - 1])
        elif t == 'tryend1':
            out.append(ind + 'except Exception:')
        elif t == 'tryend2':
            out.append(ind + '    pass')
        elif t == 'body':
            out.append(ind + '    ' + ('pass' if item['k'] != 'def' else 'return None'))
        elif t == 'doc':
            doc = item['doc'] if item else case['moddoc']
            dind = (ind + '    ') if item else ''
            qo, qc = QUOTES[doc['q']]
            if doc['q'] == 'one' and rot % 2:
                qo, qc = "'", "'"
            core = dt
            opened = core.startswith('open')
            closed_c = core.endswith('+close#')
            if closed_c:
                core = core[:-1]
            closed = core.endswith('+close')
            if core.startswith('open+'):
                core = core[5:]
            if core.endswith('+close'):
                core = core[:-6]
            if core == 'open':
                text = ''
            elif core in ('close', 'close#'):
                out.append(dind + qc + ('  # trailing comment' if core == 'close#' else ''))
                continue
            else:
                text = doc_text(core, dg, dj, doc, rot)
            if dt.startswith('open+'):
                line = dind + qo + text.lstrip() if doc['kind'] != 'goog' else dind + qo + text
            elif opened:
                line = dind + qo
            else:
                line = (dind + text) if text else ''
            if closed:
                line = line + qc + ('  # noqa: trailing comment' if closed_c else '')
            out.append(line)
        else:
            raise KeyError(t)
    return out


def callname(case, entry):
    cls, name = entry[0], entry[1]
    items = case['items']
    n = item_name(items, name)
    return n if cls == 0 else '%s.%s' % (item_name(items, cls), n)


def expected_examples(case, style):
    """{(callname, num)} predicted by the specification for a style"""
    out = set()
    summ = case['summary']
    items = case['items']
    byname = {}
    for entry in case['decl']:
        byname[entry[1]] = entry
    # summary index x: 0 = module docstring, x = item x
    for x, s in enumerate(summ):
        if not s or s[0] == 0:
            continue
        n = s[2][style] if isinstance(s[2], dict) else 0
        if x == 0:
            cn = '__doc__'
        else:
            if items[x - 1]['deco'] in ('setter', 'deleter'):
                continue
            entry = None
            for e in case['decl']:
                if e[2] == x:
                    entry = e
            if entry is None:
                continue
            cn = callname(case, entry)
        for k in range(n):
            out.add((cn, k))
    return out


_JOB = {}


def write_module(lines, tag):
    modname = 'xdvco_%d_%08x' % (os.getpid(), tag)
    path = os.path.join(_JOB['dir'], modname + '.py')
    with open(path, 'w') as f:
        f.write('\n'.join(lines) + '\n')
    return modname, path


def cfg(items, moddocs, maxitems, invariants, minitems=0, maxdepth=2, deviation=('Emit',), fillers=None):
    lines = ['SPECIFICATION Spec', 'CONSTANTS', ' Items <- %s' % items, ' Fillers <- %s' % (fillers or items), ' ModDocs <- %s' % moddocs, ' MaxItems = %d' % maxitems,
             ' MinItems = %d' % minitems, ' MaxDepth = %d' % maxdepth, ' Deviation = {%s}' % ', '.join('"%s"' % d for d in deviation)]
    lines += ['INVARIANT %s' % i for i in invariants]
    lines += ['CHECK_DEADLOCK FALSE', '']
    return '\n'.join(lines)


INVS = ['VisitIsDecl', 'UniqueNames', 'DocOpenIsGhost', 'StartIsGhost', 'ExamplesAreDecl']


def run_space(out, label, items, moddocs, maxitems, one_fn, sig_fn, limit=None, timeout=2400, minitems=0, maxdepth=2, fillers=None):
    res = common.run_tlc('MC_Collect', cfg(items, moddocs, maxitems, INVS, minitems=minitems, maxdepth=maxdepth, fillers=fillers), printed=True, timeout=timeout)
    common.tlc_must_pass(res, 'Collect ' + label)
    out.add_tlc(res, 'exhaustive:' + label)
    if res.violated:
        raise common.MachineryError('spec-level invariant %s violated on the unchanged spec (%s):\n%s' % (res.violated, label, res.stdout[-3000:]))
    raws = sorted(common.iter_printed(res))
    if limit and len(raws) > limit:
        import random
        raws = random.Random(common.seed()).sample(raws, limit)
        out.extra['replay_sampled'] = True
    _JOB['seed'] = common.seed()
    _JOB['dir'] = common.scratch_dir('xdv-collect')
    sys.path.insert(0, _JOB['dir'])
    try:
        infos = common.parallel_map(one_fn, raws, chunk=50)
    finally:
        sys.path.remove(_JOB['dir'])
    for info in infos:
        if info is None:
            continue
        out.traces += 1
        out.evaluations += 1
        out.count_nontrivial(info['key'])
        for k, v in info.get('known', {}).items():
            pass
        if 'bad' in info:
            out.violation(sig_fn(info), {'module_source': info['text'], 'disagreements': info['bad'], 'items': info.get('items')})
        elif 'text' in info and out.traces % 1501 == 0:
            out.sample({'module': info['text']}, limit=3)
    common.cleanup_scratch()
    return len(raws)


def deviation_must_fail(out, items, moddocs, maxitems, deviation, fillers=None):
    res = common.run_tlc('MC_Collect', cfg(items, moddocs, maxitems, INVS, deviation=(deviation,), fillers=fillers), timeout=900)
    common.cleanup_scratch()
    if not res.violated:
        raise common.MachineryError('vacuity control: deviation %s does not violate any invariant over %s' % (deviation, items))
    out.extra.setdefault('deviations_rejected', {})[deviation] = res.violated
