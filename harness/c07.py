"""C07 - collection is exact: every documented callable yields its doctests once.

spec  : specs/Collect.tla.  A module is a sequence of items in source order
        with nesting depth (def / async def / class / if True / main guard /
        try / with; decorators plain, functools.wraps, property, setter,
        deleter, staticmethod, classmethod; docstrings none / freeform / google
        with two Example blocks and another tag between), plus a module
        docstring.  Operational model: the visitor as a stack machine (current
        class, not-visited depth).  Declarative model: DeclInventory from the
        property text.  Style rules NExamples(google / freeform / auto).
        Invariants: VisitIsDecl, UniqueNames.
replay: the file is rendered from the line list computed in TLA+; for each
        style core.parse_doctestables(path, style, analysis='static') must
        yield exactly the predicted set of (callname, index), each once, and
        static_analysis.parse_static_calldefs exactly the inventory.
trace : corpus conformance (specs/CollectTrace.tla): the repository's own
        modules (thorough: also the 2 005 modules / 165 087 items of the
        standard library) are abstracted into item lists; the visitor model
        evaluated by TLC must equal what the real TopLevelVisitor collects.
package: directory trees with and without __init__.py: see the ModPath part of
        this check (package_modpaths must list exactly the modules of the
        package tree).
"""
import os
import sys
import warnings
import zlib

from . import common, collectlib

BOUNDS = {'quick': dict(n=3, limit=15000), 'thorough': dict(n=3, limit=None, core=4, corelimit=250000)}
STYLES = ('freeform', 'google', 'auto')


def _one(raw):
    from xdoctest import core, static_analysis
    case = collectlib.decode(raw)
    rot = (zlib.crc32(raw.encode()) + collectlib._JOB['seed']) % 100003
    lines = collectlib.render(case, rot)
    modname, path = collectlib.write_module(lines, zlib.crc32(raw.encode()))
    bad = []
    try:
        try:
            compile('\n'.join(lines) + '\n', path, 'exec')
        except SyntaxError as ex:
            raise common.MachineryError('rendered module is not valid Python: %r\n%s' % (ex, '\n'.join(lines)))
        with warnings.catch_warnings():
            warnings.simplefilter('ignore')
            calldefs = static_analysis.parse_static_calldefs(fpath=path)
            inv = {collectlib.callname(case, e) for e in case['visit']}
            if case['moddoc']['kind'] != 'none':
                inv.add('__doc__')
            if set(calldefs) != inv:
                bad.append(('calldefs', sorted(inv), sorted(calldefs)))
            # whose docstring a callname carries: the declared owner's (a setter never replaces its getter)
            for e in case['decl']:
                cn, x = collectlib.callname(case, e), e[2]
                summ = case['summary'][x]
                if cn in calldefs and summ and summ[0] and case['items'][x - 1]['doc']['q'] in ('d3', 's3'):
                    if calldefs[cn].doclineno != summ[0]:
                        bad.append(('docstring_owner[%s]' % cn, summ[0], calldefs[cn].doclineno))
            for style in STYLES:
                try:
                    exs = list(core.parse_doctestables(path, style=style, analysis='static'))
                except Exception as ex:
                    bad.append(('collection[%s]' % style, 'examples', 'raised %r' % (ex,)))
                    continue
                got = [(e.callname, e.num) for e in exs]
                exp = collectlib.expected_examples(case, style)
                if len(got) != len(set(got)):
                    bad.append(('unique[%s]' % style, 'each once', sorted(got)))
                if set(got) != exp:
                    bad.append(('examples[%s]' % style, sorted(exp), sorted(got)))
                # freeform layouts: the doctest starts at the first prompt of the first group that is not switched off and
                # holds the source lines of exactly the groups that are kept
                owners = {collectlib.callname(case, e): e[2] for e in case['decl']}
                if case['moddoc']['kind'] != 'none':
                    owners['__doc__'] = 0
                for e in exs:
                    x = owners.get(e.callname)
                    if x is None:
                        continue
                    doc = case['items'][x - 1]['doc'] if x else case['moddoc']
                    if doc['kind'] != 'free':
                        continue
                    ghost = case['summary'][x][3][style][e.num]
                    if e.lineno != ghost:
                        bad.append(('doctest_start[%s,%s]' % (style, e.callname), ghost, e.lineno))
                    off = lambda g: (g == 1 and doc['lead'] > 0 and doc['hdr'] in ('lead', 'both')) or (g == 2 and doc['hdr'] in ('mid', 'both'))
                    kept = [g for g in range(1, doc['nblk'] + 1) if not off(g)]
                    exp_src = [l.strip() for g in kept for l in collectlib.src_lines(g, doc['nsrc'], rot)]
                    got_src = [l.strip() for l in e.docsrc.split('\n') if l.strip().startswith(('>>> ', '... '))]
                    if got_src != exp_src:
                        bad.append(('doctest_source_lines[%s,%s]' % (style, e.callname), exp_src, got_src))
                ids = [e.unique_callname for e in exs]
                if len(ids) != len(set(ids)):
                    bad.append(('unique_identifiers[%s]' % style, 'unique', sorted(ids)))
    finally:
        os.unlink(path)
        sys.modules.pop(modname, None)
    info = {'key': raw[:0] + str(hash(raw))}
    if bad:
        info.update(bad=[(f, repr(a), repr(b)) for f, a, b in bad], text='\n'.join(lines), items=case['items'])
    elif rot % 1501 == 0:
        info['text'] = '\n'.join(lines)
    return info


def sig(info):
    return {'kind': 'collect_replay', 'fields': ','.join(sorted({b[0].split('[')[0] for b in info['bad']}))}


def run(tier):
    out = common.Outcome('C07', tier)
    b = BOUNDS[tier]
    out.rule = ('every module of <= %d items (nesting depth <= 2) over C07_Items (58 item kinds) x 3 module docstrings in Collect.tla, replayed under '
                'the three styles (sampled where stated)' % b['n'])
    collectlib.run_space(out, 'C07_Items<=%d' % b['n'], 'C07_Items', 'C07_ModDocs', b['n'], _one, sig, limit=b['limit'], timeout=3600)
    if b.get('core'):
        # longer modules over a core alphabet (23 item kinds)
        collectlib.run_space(out, 'C07_Core<=%d' % b['core'], 'C07_Core', 'C07_ModDocs', b['core'], _one, sig, limit=b['corelimit'], timeout=5400)
    # freeform layouts in which a word in front of a group of prompt lines (Benchmark:, Script:, ...) switches that group off
    collectlib.run_space(out, 'C07 skip words', 'C07_HdrItems', 'C07_HdrModDocs', 2, _one, sig, limit=b['limit'], fillers='C07_HdrFill', maxdepth=1)
    collectlib.deviation_must_fail(out, 'C07_HdrItems', 'C07_HdrModDocs', 1, 'SkipWordSticks', fillers='C07_HdrFill')
    # documented definitions inside except / else / finally / case / if-else / for-else clauses and for bodies
    collectlib.run_space(out, 'C07 clauses', 'Clause_Items', 'C07_ModDocs', 3, _one, sig, limit=b['limit'], maxdepth=2)
    collectlib.deviation_must_fail(out, 'Clause_Items', 'C07_ModDocs', 2, 'SkipClauseBodies')
    # a property with its setter and deleter: the callname belongs to the getter, whatever decorators the others carry
    collectlib.run_space(out, 'C07 properties', 'Setter_Items', 'C07_ModDocs', 4, _one, sig, limit=b['limit'], maxdepth=1)
    for dev in ('CollectNestedClass', 'CollectMainGuard', 'CollectSetters', 'VisitFunctionBody', 'NoAsyncVisit'):
        collectlib.deviation_must_fail(out, 'C07_Items', 'C07_ModDocs', 2 if dev != 'CollectSetters' else 3, dev)
    from . import c17, corpus_collect, googlelib
    # the grouping of a google-style docstring into blocks, line by line (GoogleBlocks.tla)
    googlelib.google_phase(out, tier)
    c17.package_phase(out, tier)
    # code -> spec on real modules: the visitor model evaluated by TLC on the item lists of real files = the real collector
    roots = [common.SRC, os.path.join(common.REPO, 'tests')]
    if tier == 'thorough':
        import sysconfig
        roots.append(sysconfig.get_paths()['stdlib'])
    for b in corpus_collect.collect_corpus_phase(out, roots):
        out.violation({'kind': 'corpus_inventory'}, b)
    out.exhaustive = not out.extra.get('replay_sampled', False)
    out.assumptions = ['names are unique per item (redefinition of a name is not generated)',
                       'conditional / try / with blocks are transparent both at module level and in a class body']
    return out.finish()


def replay(path):
    import json
    d = json.load(open(path))['detail']
    print(d['module_source'])
    print('disagreements:', d['disagreements'])
    return 0
