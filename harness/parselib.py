"""Replay of DocParse.tla docstrings into the real parser (and, for C01, the real runner).

TLC prints one line per finished docstring: building blocks, the abstract line
list (kind, indentation, block id), the labels and parts the specification
computed, the error class.  The line list is rendered token by token; nothing
of the layout is recomputed here.
"""
import ast
import io
import os
import re
import sys
import tokenize
import warnings
import zlib

from . import common, tlaval

# ---------------------------------------------------------------------------
# statement templates: shape -> list of variants; a variant is a list of code lines (without prompt).
# {k} = block id, {o} = the token the statement prints ('o<k>').

TEMPLATES = {
    'one': [["x{k} = p({k}, '{o}')"],
            ["x{k} = p({k}, '{o}')  # a plain comment"],
            ["x{k} = p({k}, '{o}') or '>>> not a prompt'"],
            ["x{k} = p({k}, '{o}', ) or '# xdoctest: +SKIP in a string'"],
            ["x{k} = p({k}, '{o}')   "],                                   # trailing blanks are part of the line
            ["x{k} = await ap({k}, '{o}')"]],                              # top-level await
    'expr': [["v({k}, '{o}')"], ["(v({k}, '{o}'))"], ["await aw({k}, '{o}')"],
             ["(w{k} := v({k}, '{o}'))"]],                                  # an expression statement that binds a name
    'semi': [["y{k} = 1; v({k}, '{o}')"]],
    'cmt': [["# just a comment {k}"], ["#comment{k}"]],          # (C13 adds [""] through EXTRA: an empty prompt line, '>>>' alone)
    'ml2': [["x{k} = p({k},", "       '{o}')"],
            ["x{k} = \\", "    p({k}, '{o}')"],
            ["x{k} = {{'a': p({k}, '{o}'),", "     'b': [1, 2]}}"],
            ["x{k} = p({k}, '''{o}", "tail{k}''')"]],
    'mlx2': [["v({k},", "  '{o}')"], ["(v({k}, '{o}'),", " )[0]"]],
    # a bracketed statement with an empty docstring line inside (the empty line is not a template line)
    'mlb3': [["x{k} = p({k},", "       '{o}')"], ["x{k} = [p({k}, '{o}'),", "       0][0]"], ["x{k} = {{'a': p({k}, '{o}'),", "     'b': 2}}"]],
    'cmpq2': [["if True:", "    x{k} = p({k})"], ["for _i{k} in [0]:", "    x{k} = p({k})"], ["with ctx():", "    x{k} = p({k})"]],
    'mlq2': [["x{k} = [p({k}),", "       {k}][1]"], ["x{k} = p({k}", "       )"]],
    'ml3': [["x{k} = p({k},", "       '{o}',", "       )"],
            ["x{k} = [p({k}, '{o}'),", "       2,", "       3]"]],
    'tri3': [["x{k} = p({k}, '''{o}", "inner line {k}", "end{k}''')"],
             ["x{k} = p({k}, '''{o}  ", "padded {k}    ", "end{k}''')"],                          # trailing blanks inside the string
             ['x{k} = p({k}, """{o}', "inner 'quoted' {k}", 'end{k}""")']],
    'cmp2': [["for _i{k} in [0]:", "    x{k} = p({k}, '{o}')"],
             ["async with actx():", "    x{k} = await ap({k}, '{o}')"],
             ["if True:", "    x{k} = p({k}, '{o}')"],
             ["with ctx():", "    x{k} = p({k}, '{o}')"],
             ["class C{k}:", "    a = p({k}, '{o}')"]],
    'cmp3': [["if False:", "    pass", "else: x{k} = p({k}, '{o}')"],
             ["for _i{k} in [0]:", "    y{k} = 1", "    x{k} = p({k}, '{o}')"],
             ["try:", "    x{k} = p({k}, '{o}')", "finally: y{k} = 2"]],
    'deco3': [["@pd({k}, '{o}')", "def f{k}():", "    return {k}"],
              ["@pd({k}, '{o}')", "class K{k}(object):", "    z = {k}"]],
    'asg': [["x{k} = p({k})"], ["x{k} = [p({k}), {k}][1]"]],
    'echo': [["v({k})"], ["(v({k}))"]],
    'prn': [["p({k}, '{o}')"]],
    'exc': [["rz({k}, ValueError('m{k}'))"], ["(rz({k}, ValueError('m{k}: detail')))"], ["rze({k}, '1 +')"], ["rze({k}, 'x{k}.missing')"],
            ["rz({k}, ValueError('bad value 1.5 for item {k}.'))"], ["rz({k}, KeyError('a.b: c{k}'))"]],
    'star': [["from os.path import *"], ["from collections import *  # star"]],
    'pair2': [["x{k} = p({k}, '{o}')", "y{k} = {k}"]],
    'f9': [["if False:", "    y{k} = 0", "# a note in column 0", "else: x{k} = p({k}, '{o}')"],
           ["try:", "    x{k} = p({k}, '{o}')", "# a note in column 0", "finally: y{k} = 2"]],
    'f10': [["with ctx() as a{k}, \\", "        ctx() as b{k}:", "    x{k} = p({k}, '{o}')"]],
    'badone': [["x{k} = = 1"], ["d{k} = {{'a': 1,, 'b': 2}}"], ["print('{{}}'.format({k}) 2)"], ["def {k}bad(:"], ["x{k} = 1 +"]],
    'trunc2': [["x{k} = [p({k}, '{o}'),", "2"], ["x{k} = '''{o}", "never closed"]],
    'braw3': [["x{k} = [1,", "2,", "3]"]],
}
TEXTS = ['some prose here', 'Example:', 'o9', 'Args: nothing', 'Returns', '1 2 3']
DIRS = {'first': '# xdoctest: +SKIP', 'last': '# xdoctest: +SKIP', 'neg': '# xdoctest: -SKIP'}


def _commentable(line):
    """a trailing comment can be appended to this line (no open string, no backslash, no comment yet)"""
    t = line.rstrip()
    return not (t.endswith('\\') or t.count("'''") % 2 or t.count('"""') % 2 or '  # ' in t)


EXTRA = {}          # shape -> further templates, switched on by a single check (they would disturb the others)


def template_for(block, rot):
    vs = TEMPLATES[block['shape']] + EXTRA.get(block['shape'], [])
    if block['shape'] == 'prn' and block.get('n') == 2:
        vs = [["p({k}, '{o}', 'q{k}')"], ["p({k}, '{o}', '')"]]          # two printed lines, the second possibly empty (<BLANKLINE>)
    if block.get('t') == 'ex':
        # the number of want lines of an example is fixed by the specification: no variant that prints a multi-line string
        vs = [v for v in vs if not any("'''" in l or '"""' in l or 'await ' in l or 'async ' in l for l in v)] or vs
    d = block.get('dir', 'none')
    if d != 'none' and block['shape'] != 'cmt':
        at = 0 if d in ('first', 'neg', 'opt') else -1
        vs = [v for v in vs if _commentable(v[at])] or vs
    return vs[rot % len(vs)]


def self_check_templates():
    """Independent check (Python's own tokenizer and ast) that every template has the abstract attributes
    the specification assumes for its shape: number of lines until balanced, statement starts, expression."""
    from_spec = {  # shape: (cont of first line, expr)
        'one': (0, False), 'expr': (0, True), 'semi': (0, True), 'ml2': (1, False), 'mlx2': (1, True), 'ml3': (2, False),
        'tri3': (2, False), 'cmp2': (0, False), 'cmp3': (0, False), 'deco3': (0, False), 'cmpq2': (0, False), 'mlq2': (1, False)}
    for shape, (cont, expr) in from_spec.items():
        for var in TEMPLATES[shape]:
            lines = [l.format(k=7, o='o7') for l in var]
            src = '\n'.join(lines)
            tree = ast.parse(src)
            firsts = sorted({(n.decorator_list[0].lineno if getattr(n, 'decorator_list', None) else n.lineno) for n in tree.body})
            if firsts != [1]:
                raise common.MachineryError('template %r: statements start at %r' % (var, firsts))
            if isinstance(tree.body[-1], ast.Expr) != expr:
                raise common.MachineryError('template %r: expression attribute' % (var,))
            # smallest prefix whose tokens are balanced
            need = None
            for n in range(1, len(lines) + 1):
                try:
                    it = iter(l + '\n' for l in lines[:n])
                    list(tokenize.generate_tokens(lambda: next(it)))
                    need = n - 1
                    break
                except (tokenize.TokenError, StopIteration, IndentationError, SyntaxError):
                    continue
            if shape in ('cmp2', 'cmp3', 'deco3'):
                # compound statements: the header is balanced by itself
                it = iter([lines[0] + '\n'])
                try:
                    list(tokenize.generate_tokens(lambda: next(it)))
                except tokenize.TokenError:
                    pass
                except StopIteration:
                    pass
                need = 0
            if need != cont:
                raise common.MachineryError('template %r: needs %r more lines to balance, spec says %r' % (var, need, cont))


# ---------------------------------------------------------------------------

def decode(raw):
    blocks, lines, labels, parts, err, f11, decl, runset = tlaval.parse_value(raw)
    case = {'blocks': [dict(b) for b in blocks], 'lines': [tuple(l) for l in lines], 'labels': list(labels),
            'parts': [tuple(p) for p in parts], 'err': err, 'f11': f11, 'decl': list(decl), 'runset': list(runset)}
    # a final blank line is not a line of the docstring for str.splitlines(); drop it on both sides
    while case['lines'] and case['lines'][-1][0] == 'blank':
        n = len(case['lines'])
        case['lines'].pop()
        case['decl'].pop()
        if len(case['labels']) == n:
            case['labels'].pop()
        if case['parts']:
            t, a, b, wa, wb, mode, ndir, inl = case['parts'][-1]
            if t == 'text' and b == n:
                if a == b:
                    case['parts'].pop()
                else:
                    case['parts'][-1] = (t, a, b - 1, wa - 1, wb - 1, mode, ndir, inl)
    return case


PLAIN_TEXTS = ['some prose here', 'more words', 'o9', '1 2 3']


def render(case, rot, tabs=False, extra_indent=0, texts=None, dirs=None):
    """-> (list of text lines, info per line dict(sid, j) ) rendering the abstract line list"""
    blocks = case['blocks']
    out = []
    counters = {}
    textno = 0
    for lineno_, (k, ind, sid) in enumerate(case['lines']):
        pad = ' ' * (4 * ind + extra_indent)
        if k == 'blank':
            out.append('')
            continue
        if sid == 0:
            if k == 'text':
                textno += 1
                tx = texts or TEXTS
                out.append(pad + tx[(rot + textno) % len(tx)])
            elif k == 'bare':
                out.append(pad + '...')
            elif k == 'p2':
                out.append(pad + '... and so on')
            continue
        b = blocks[sid - 1]
        j = counters.get(sid, 0)
        counters[sid] = j + 1
        tpl = template_for(b, rot + 3 * sid)
        if k == 'bare':
            out.append(pad + '...')
            continue
        if tpl == [""]:
            # an empty prompt line stands for a comment-only line wherever another prompt line (or nothing at all) follows it; as the LAST line of a
            # chunk it would not (a comment there is a statement of its own for the mode of the chunk, an empty line is not)
            nxt = case['lines'][lineno_ + 1] if lineno_ + 1 < len(case['lines']) else None
            if not (nxt is None or (nxt[0] == 'p1' and nxt[1] == ind)):
                tpl = TEMPLATES['cmt'][0]
        code = tpl[j].format(k=sid, o='o%d' % sid)
        n = len(tpl)
        if b['dir'] != 'none':
            at = 0 if b['dir'] in ('first', 'neg', 'opt') else n - 1
            if j == at:
                dtext = (dirs or DIRS)[b['dir']]
                if callable(dtext):
                    dtext = dtext(b, sid)
                if b['shape'] == 'cmt':
                    code = dtext
                else:
                    code = code + '  ' + dtext
        if k == 'p1':
            out.append(pad + '>>> ' + code)
        elif k == 'p2':
            out.append(pad + '... ' + code)
        elif k == 'raw':
            out.append(pad + code)
    if tabs:
        out = [l.replace('        ', '\t', 1) if l.startswith('        ') else l for l in out]
    return out


def real_labels(text):
    from xdoctest import parser
    s = text.expandtabs()
    mi = parser._min_indentation(s)
    if mi > 0:
        s = '\n'.join([ln[mi:] for ln in s.splitlines()])
    return [lab for lab, _ in parser.DoctestParser()._label_docsrc_lines(s)], s


def real_parse(text):
    """-> ('parts', [...]) | ('ParseError', msg) | ('OtherError', repr)"""
    from xdoctest import parser, exceptions
    try:
        with warnings.catch_warnings():
            warnings.simplefilter('ignore')
            parts = parser.DoctestParser().parse(text)
    except exceptions.DoctestParseError as ex:
        return 'ParseError', repr(ex.orig_ex)[:200]
    except Exception as ex:           # noqa
        return 'OtherError', repr(ex)[:300]
    return 'parts', parts


_DIR_RE = re.compile(r'#\s*x?doc(?:test)?:\s*(.*)$', re.I)


def count_directives(line):
    """number of options in the directive comment of a rendered line (comma- or blank-separated)"""
    idx = line.rfind('#')                 # the comment, not a '#' inside a string literal (templates keep strings in front)
    m = _DIR_RE.match(line[idx:]) if idx >= 0 else None
    if not m or m.group(1).rstrip().endswith(("'", '"')):      # directive-looking text inside a string literal of a template
        return 0
    return len([t for t in re.split(r',|\s+(?=[+-])', m.group(1)) if t.strip()])


def has_f21(case):
    """an empty line inside a statement, followed by a '...' line of the same statement (DocParse.tla HasF21)"""
    ls = case['lines']
    return any(ls[j][0] == 'blank' and ls[j][2] != 0 and ls[j + 1][0] in ('p2', 'bare') and ls[j + 1][2] == ls[j][2] for j in range(len(ls) - 1))


def compare_parse(case, textlines):
    """returns list of (field, expected, observed)"""
    bad = []
    text = '\n'.join(textlines)
    kind, got = real_parse(text)
    if case['f11'] and _JOB.get('outcome_only_when_f11'):
        return [('outcome', 'parts or ParseError', '%s: %s' % (kind, got))] if kind == 'OtherError' else []
    if case['f11']:
        # known imprecision of the operational model after a mis-labelled prompt: only the declarative labels are compared
        if kind == 'parts':
            labs, _ = real_labels(text)
            m = ['src' if l in ('dsrc', 'dcnt') else l for l in labs]
            if m != case['decl']:
                bad.append(('decl_labels', case['decl'], m))
        elif kind == 'ParseError':
            bad.append(('decl_labels', case['decl'], 'ParseError ' + got))
        else:
            bad.append(('outcome', 'parts', '%s: %s' % (kind, got)))
        return bad
    if case['err'] != 'none':
        if kind != 'ParseError':
            bad.append(('outcome', 'ParseError(%s)' % case['err'], kind if kind != 'parts' else 'parts'))
        elif has_f21(case) and not any(b.get('shape') in ('badone', 'trunc2') or b.get('t') == 'p2txt' for b in case['blocks']):
            # model and code agree that this docstring cannot be parsed - but it is well formed: known finding F21
            bad.append(('empty_line_then_dots_statement_unparsable', 'parts', 'ParseError ' + str(got)[:120]))
        return bad
    if kind != 'parts':
        bad.append(('outcome', 'parts', '%s: %s' % (kind, got)))
        return bad
    try:
        labs, norm = real_labels(text)
    except Exception as ex:
        return [('labels', case['labels'], 'raised %r' % (ex,))]
    if labs != case['labels']:
        bad.append(('labels', case['labels'], labs))
    if ['src' if l in ('dsrc', 'dcnt') else l for l in labs] != case['decl']:
        bad.append(('decl_labels', case['decl'], labs))
    exp = case['parts']
    if len(got) != len(exp):
        bad.append(('nparts', [(p[0], p[1], p[2], p[3], p[4]) for p in exp],
                    [('text', len(p.splitlines())) if isinstance(p, str) else ('code', p.line_offset, p.n_exec_lines, p.n_want_lines) for p in got]))
        return bad
    normlines = norm.splitlines()
    rebuilt = []
    for x, (p, g) in enumerate(zip(exp, got)):
        t, a, b, wa, wb, mode, ndir, inl = p
        if t == 'text':
            if not isinstance(g, str):
                bad.append(('part%d.kind' % x, 'text', 'code'))
                continue
            n = len(g.split('\n'))
            if n != b - a + 1:
                bad.append(('part%d.nlines' % x, b - a + 1, n))
            rebuilt += g.split('\n')
        else:
            if isinstance(g, str):
                bad.append(('part%d.kind' % x, 'code', 'text'))
                continue
            try:
                obs = (g.line_offset, g.n_exec_lines, g.n_want_lines, g.compile_mode, len(g.directives), bool(g.directives and g.directives[0].inline))
            except Exception as ex:           # the lazy directive extraction of a part may raise
                bad.append(('part%d.directives' % x, 'a list', 'raised %r' % (ex,)))
                continue
            if ndir:
                ndir = sum(count_directives(textlines[j - 1]) for j in range(a, b + 1)) or ndir     # several options in one comment
            want = (a - 1, b - a + 1, max(0, wb - wa + 1), mode, ndir, inl)
            if obs != want:
                bad.append(('part%d(offset,nexec,nwant,mode,ndir,inline)' % x, want, obs))
            rebuilt += list(g.orig_lines) + list(g.want_lines or [])
    # C13: joined back together the parts reproduce the docstring line for line (content; indentation of a chunk and the
    # "... " inserted in front of unprefixed string lines are allowed)
    if not bad:
        def core(s):
            s = s.strip()
            return s[4:] if s.startswith('... ') else s
        if [core(s) for s in rebuilt] != [core(s) for s in normlines]:
            bad.append(('reproduces_docstring', normlines, rebuilt))
    return bad


# ---------------------------------------------------------------------------

_JOB = {}


def _one(raw):
    case = decode(raw)
    rot = (zlib.crc32(raw.encode()) + _JOB['seed']) % 100003
    variants = [(False, 0)]
    if rot % 5 == 0:
        variants.append((True, 8 if rot % 2 else 4))       # tab-indented / extra common indentation
    info = {'key': tuple((b['t'], b['shape'], b['style'], b['ind'], b['dir']) for b in case['blocks']), 'err': case['err'], 'f11': case['f11']}
    if _JOB.get('skip_shapes') and any(b.get('shape') in _JOB['skip_shapes'] for b in case['blocks']):
        return info
    for tabs, extra in variants:
        lines = render(case, rot, tabs=tabs, extra_indent=extra, **_JOB.get('render_kw', {}))
        bad = compare_parse(case, lines)
        if _JOB.get('extra'):
            xb = _JOB['extra'](case, lines, rot)
            if xb and xb[0][0] == 'EXCLUDED':
                info['excluded'] = xb[0][1]
                xb = []
            bad += xb
        if bad:
            info['bad'] = [(f, repr(a), repr(b)) for f, a, b in bad]
            info['text'] = '\n'.join(lines)
            info['case'] = {'blocks': case['blocks'], 'labels': case['labels'], 'parts': case['parts'], 'err': case['err']}
            break
    if 'bad' not in info and rot % 1999 == 0:
        info['text'] = '\n'.join(lines)
    return info


def cfg(blocks, maxblocks, invariants, minblocks=0, deviation=('Emit',)):
    lines = ['SPECIFICATION Spec', 'CONSTANTS', ' Blocks <- %s' % blocks, ' MaxBlocks = %d' % maxblocks, ' MinBlocks = %d' % minblocks,
             ' Deviation = {%s}' % ', '.join('"%s"' % d for d in deviation)]
    lines += ['INVARIANT %s' % i for i in invariants]
    lines += ['CHECK_DEADLOCK FALSE', '']
    return '\n'.join(lines)


INVS = ['RunSetAgrees', 'LabelsAreDecl', 'PartsPartition', 'LabelsMatchParts', 'NoStatementSplit', 'DirectiveIsolated', 'EvalPartsSingleStatement', 'NoSpuriousError']


def run_space(out, label, blocks, maxblocks, sig_fn, extra=None, limit=None, timeout=2400, known_f11=True):
    """TLC over the alphabet, then replay of every printed docstring"""
    res = common.run_tlc('MC_DocParse', cfg(blocks, maxblocks, INVS), printed=True, timeout=timeout)
    common.tlc_must_pass(res, 'DocParse ' + label)
    out.add_tlc(res, 'exhaustive:' + label)
    if res.violated:
        raise common.MachineryError('spec-level invariant %s violated on the unchanged spec (%s):\n%s' % (res.violated, label, res.stdout[-3000:]))
    raws = list(common.iter_printed(res))
    if limit and len(raws) > limit:
        import random
        raws = random.Random(common.seed()).sample(raws, limit)
        out.extra['replay_sampled'] = True
    _JOB['seed'] = common.seed()
    _JOB['extra'] = extra
    infos = common.parallel_map(_one, raws, chunk=100)
    n_err = n_f11 = 0
    for info in infos:
        if info.get('excluded'):
            out.extra['excluded:' + info['excluded']] = out.extra.get('excluded:' + info['excluded'], 0) + 1
        out.traces += 1
        out.evaluations += 1
        out.count_nontrivial(info['key'])
        n_err += info['err'] != 'none'
        n_f11 += bool(info['f11'])
        if 'bad' in info:
            sig = sig_fn(info)
            out.violation(sig, {'text': info['text'], 'case': info['case'], 'disagreements': info['bad']})
        elif 'text' in info:
            out.sample({'docstring': info['text'], 'predicted_error': info['err']}, limit=4)
    out.extra['docstrings_with_predicted_parse_error'] = out.extra.get('docstrings_with_predicted_parse_error', 0) + n_err
    out.extra['docstrings_with_prompt_indent_change(F11)'] = out.extra.get('docstrings_with_prompt_indent_change(F11)', 0) + n_f11
    common.cleanup_scratch()
    return len(raws)


def deviation_must_fail(out, blocks, maxblocks, deviation):
    res = common.run_tlc('MC_DocParse', cfg(blocks, maxblocks, INVS, deviation=(deviation,)), timeout=900)
    common.cleanup_scratch()
    if not res.violated:
        raise common.MachineryError('vacuity control: deviation %s does not violate any invariant over %s' % (deviation, blocks))
    out.extra.setdefault('deviations_rejected', {})[deviation] = res.violated
