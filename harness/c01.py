"""C01 - doctest code runs exactly as written: each statement once, in order.

spec  : specs/DocParse.tla with alphabet C01_Blocks (MC_DocParse.tla): programs
        of statements in 11 shapes (one-line, expression, semicolon line,
        comment, bracketed / backslash / triple-quoted multi-line, compound,
        decorated definition) x prompt styles ('>>>' everywhere, '...'
        continuation, bare '...' terminator, unprefixed string lines),
        interleaved with 1-2 line wants, blank lines and prose, with trailing
        +SKIP on the first or last line of a statement and +SKIP/-SKIP comment
        lines.  Invariants: NoStatementSplit, PartsPartition, RunSetAgrees
        (the run loop over the packaged parts runs exactly the statements the
        declarative directive rule enables), EvalPartsSingleStatement.
replay: every finished docstring is rendered and (i) its de-prompted source,
        minus the disabled statements, is executed as an ordinary program
        (reference), (ii) the real DocTest runs it (wants ignored so that every
        enabled statement is reached); the executed-statement trace, the stdout
        recorded per part and in total, and the final variable bindings must
        equal the reference and the specification's prediction.  Pairs of
        doctests are also run back to back to check stdout attribution.
"""
import contextlib
import io
import re
import sys
import warnings

from . import common, parselib, runlib

BOUNDS = {'quick': [('C01_Blocks', 3, None)], 'thorough': [('C01_Blocks', 3, None), ('C01_Blocks', 4, 300000)]}


class SnapDict(dict):
    def clear(self):
        self.snapshot = dict(self)
        dict.clear(self)


@contextlib.contextmanager
def _ctx():
    yield


def _namespace(T):
    ns = runlib.make_namespace(T)
    ns['ctx'] = _ctx
    return ns


def _bindings(ns, helper_keys):
    out = {}
    for k, v in ns.items():
        if k in helper_keys or k.startswith('__'):
            continue
        if isinstance(v, (int, str, list, dict, tuple, type(None))):
            out[k] = repr(v)
        else:
            out[k] = type(v).__name__
    return out


def _bodies(case, lines):
    """(sid, kind, code text) per source line: prompt and docstring indentation removed"""
    indent_of = {}
    out = []
    for (k, ind, sid), text in zip(case['lines'], lines):
        if sid == 0:
            continue
        body = text.expandtabs()
        if k in ('p1', 'p2', 'bare'):
            n = len(body) - len(body.lstrip(' '))
            indent_of.setdefault(sid, n)
            body = body.lstrip(' ')[4:]
        else:
            n = indent_of.get(sid, 0)
            body = body[n:] if body[:n].strip() == '' else body.lstrip(' ')
        out.append((sid, k, body))
    return out


def deprompt(case, lines):
    """the program as written: prompts and docstring indentation removed, disabled statements left out"""
    enabled = set(case['runset'])
    return '\n'.join(body for sid, k, body in _bodies(case, lines) if sid in enabled and k != 'bare') + '\n'


_PREV = {}
_ADDR = re.compile(r'0x[0-9a-fA-F]+')


def extra(case, lines, rot):
    if case['err'] != 'none' or case['f11']:
        return []
    from xdoctest import doctest_example
    bad = []
    text = '\n'.join(lines)
    # ill-formed for the standard doctest module as well: two statements in one old-style example that has a want
    # ("multiple statements found while compiling a single statement"); not part of the well-formed grammar
    for p in case['parts']:
        if p[0] == 'code' and p[5] == 'single':
            if any(case['blocks'][case['lines'][j - 1][2] - 1]['shape'] == 'pair2' for j in range(p[1], p[2] + 1) if case['lines'][j - 1][2]):
                return []
    # a third of the programs runs as the doctest of a real module whose globals collide with the names the program binds
    with_module = rot % 3 == 0
    # (i) reference execution
    Tref = []
    nsref = _namespace(Tref)
    helper_keys = set(nsref)
    from . import xdv_c01mod
    if with_module and case['runset']:         # the module is imported right before the first statement that runs
        nsref.update({k: v for k, v in vars(xdv_c01mod).items() if not k.startswith('__')})
    src = deprompt(case, lines)
    buf = io.StringIO()
    try:
        with contextlib.redirect_stdout(buf):
            import ast
            import asyncio
            import inspect
            code = compile(src, '<reference>', 'exec', flags=ast.PyCF_ALLOW_TOP_LEVEL_AWAIT)
            if code.co_flags & inspect.CO_COROUTINE:
                asyncio.run(eval(code, nsref))          # the program uses top-level await: run it as one coroutine
            else:
                exec(code, nsref)
    except Exception as ex:
        raise common.MachineryError('reference execution of a generated program failed: %r\n%s' % (ex, src))
    # (a coroutine object that nobody awaits is created by its statement, but its body - which would record the id - never runs)
    unawaited = {sid for sid, k, body in _bodies(case, lines) if body.startswith('ap(')}
    if Tref != [s_ for s_ in case['runset'] if s_ not in unawaited]:
        raise common.MachineryError('reference trace %r differs from the specification run set %r\n%s' % (Tref, case['runset'], text))
    ref_out = buf.getvalue()
    ref_bind = _bindings(nsref, helper_keys)
    # (ii) the real thing
    T = []
    with warnings.catch_warnings():
        warnings.simplefilter('ignore')
        dt = doctest_example.DocTest(text, callname='c01', mode='native', modpath=xdv_c01mod.__file__ if with_module else None)
        dt.config['default_runtime_state'] = {'IGNORE_WANT': True}
        dt.config['colored'] = False
        dt.global_namespace = SnapDict()
        dt.global_namespace.update(_namespace(T))
        sink = io.StringIO()
        old = sys.stdout
        sys.stdout = sink
        try:
            summary = dt.run(verbose=0, on_error='return')
        except BaseException as ex:
            sys.stdout = old
            return [('run', 'summary', 'raised %r' % (ex,))]
        finally:
            sys.stdout = old
    if summary['failed']:
        bad.append(('result', 'no failure', repr(summary['exc_info'][1])[:200]))
    if T != Tref:                     # (Tref is the specification's run set, checked above)
        bad.append(('executed_statements', Tref, T))
    total = _ADDR.sub('0x', ''.join(dt.logged_stdout[i] for i in sorted(dt.logged_stdout)))
    if sink.getvalue() != '':
        bad.append(('stdout_leak_outside_capture', '', sink.getvalue()))
    # per part: the statements whose first line lies in the part
    enabled = set(case['runset'])
    code_parts = [p for p in case['parts'] if p[0] == 'code']
    exp_total = ''
    exp_plain = ''
    if len(code_parts) == len(dt._parts):
        for px, p in enumerate(code_parts):
            sids = []
            for j in range(p[1], p[2] + 1):
                sid = case['lines'][j - 1][2]
                if sid and sid not in sids and case['blocks'][sid - 1]['shape'] != 'cmt':
                    sids.append(sid)
            exp = ''.join(_stmt_output(case, s, lines, p[5]) for s in sids if s in enabled)
            exp_total += exp
            exp_plain += ''.join(_stmt_output(case, s, lines) for s in sids if s in enabled)
            got = dt.logged_stdout.get(px)
            if isinstance(got, str):
                got = _ADDR.sub('0x', got)
            if px in dt.logged_stdout:
                if got != exp:
                    bad.append(('stdout_part%d' % px, exp, got))
            elif exp:
                bad.append(('stdout_part%d' % px, exp, None))
        if exp_plain != ref_out:
            raise common.MachineryError('reference stdout %r differs from the template prediction %r\n%s' % (ref_out, exp_plain, text))
        if total != exp_total:
            bad.append(('stdout_total', exp_total, total))
    snap = getattr(dt.global_namespace, 'snapshot', {})
    got_bind = _bindings(snap, helper_keys)
    if got_bind != ref_bind:
        bad.append(('final_bindings', ref_bind, got_bind))
    # attribution across doctests: what the previous doctest of this worker printed must not reappear
    prev = _PREV.get('out')
    if prev and ref_out and prev not in ref_out and prev in total and not bad:
        bad.append(('stdout_from_previous_doctest', ref_out, total))
    _PREV['out'] = ref_out[:40] if ref_out else None
    return bad


def _stmt_output(case, sid, lines, mode='exec'):
    b = case['blocks'][sid - 1]
    if b['shape'] == 'cmt':
        return ''
    # what the templates print: the token, plus the further lines of a multi-line string
    whole = '\n'.join(body for s, k, body in _bodies(case, lines) if s == sid and k != 'bare')
    o = 'o%d' % sid
    out = o + '\n'
    if whole.startswith('ap('):
        # an expression whose VALUE is a coroutine object that nobody awaits: its body never runs (the REPL echoes the object)
        return '<coroutine object make_namespace.<locals>.ap at 0x>\n' if mode == 'single' else ''
    for q in ("'''", '"""'):
        if q + o in whole:
            a = whole.index(q) + 3
            z = whole.index(q, a)
            out = whole[a:z] + '\n'
    if mode == 'single' and b['shape'] in ('expr', 'semi', 'mlx2'):
        out += 'R%d\n' % sid          # REPL echo of the value in single mode
    return out


def sig(info):
    fields = sorted({b[0].split('.')[0].split('(')[0].rstrip('0123456789') for b in info['bad']})
    shapes = {k[1] for k in info['key']}
    known_shape = 'comment_before_clause' if 'f9' in shapes else ('backslash_header_deep' if 'f10' in shapes else 'none')
    if known_shape != 'none' and (any('ParseError' in b[2] for b in info['bad']) or not info['f11']):
        return {'kind': 'run_replay', 'known_shape': known_shape, 'outcome_is_parse_error': any('ParseError' in b[2] for b in info['bad'])}
    return {'kind': 'run_replay', 'fields': ','.join(fields), 'prompt_indent_change_after_source': bool(info['f11'])}


def run(tier):
    out = common.Outcome('C01', tier)
    parselib.self_check_templates()
    # an expression statement whose value is a coroutine object (an `async def` called without await): creating it runs nothing
    parselib.EXTRA['expr'] = [["ap({k}, '{o}')"]]
    warnings.filterwarnings('ignore', message='coroutine .* was never awaited')      # (that is the point of the template)
    out.rule = ('every program of <= N building blocks over C01_Blocks (46 block kinds) in DocParse.tla; one case per finished docstring, '
                'a fifth of them also tab-indented / with extra common indentation')
    for blocks, n, limit in BOUNDS[tier]:
        parselib.run_space(out, '%s<=%d' % (blocks, n), blocks, n, sig, extra=extra, limit=limit)
    for dev in ('NoBreakAfterInline', 'NoTripleQuoteHack'):
        parselib.deviation_must_fail(out, 'C01_Blocks', 3, dev)
    out.exhaustive = not out.extra.get('replay_sampled', False)
    out.assumptions = ['statements are instances of the templates of harness/parselib.py; top-level await: see the C12/C02 run-loop checks (body kind "await")',
                       'wants are ignored (IGNORE_WANT default) so that every enabled statement is reached; verdicts are C02',
                       'known findings F9/F10 (column-0 comment before else/except, deep backslash header) are shapes outside this alphabet, see DESIGN.md section 6']
    return out.finish()


def replay(path):
    import json
    d = json.load(open(path))['detail']
    print(d['text'])
    print('specification:', d['case'])
    print('disagreements:', d['disagreements'])
    return 0
