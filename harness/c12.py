"""C12 - process-global state is restored after every outcome.

spec  : specs/DocRun.tla, alphabet C12_Parts (MC_DocRun.tla): parts that print,
        replace sys.stdout without restoring it, change the warning filters,
        await, x terminating outcomes {pass, mismatch, exception, expected
        exception, ExitTestException, all skipped, compile error, SystemExit,
        KeyboardInterrupt, import failure} at every position x on_error in
        {return, raise} x mode in {native, pytest}.  Invariant StdoutRestored
        (capture = "orig" in every terminal state, also on the exceptional
        exits) together with the general outcome invariants.
replay: every terminal state is run by the real DocTest.run; at the exit
        (normal or by exception) sys.stdout, sys.stderr, sys.path,
        warnings.filters, warnings.showwarning are compared with their values
        at entry and no event loop may be running.
import: specs/ModPath.tla ImportByPath - see harness/c17.py; the sys.path part
        of this property for import-by-path is exercised there and here through
        the module pre-import of the run (success and three failure kinds).
"""
from . import common, runlib

BOUNDS = {'quick': 3, 'thorough': 4}


def nontrivial(info):
    return True


def run(tier):
    out = common.Outcome('C12', tier)
    n = BOUNDS[tier]
    out.rule = ('every program of <= %d parts over C12_Parts (14 part kinds) x on_error x mode x import success/failure reachable in DocRun.tla; '
                'each terminal state (normal return or propagated exception) is one case' % n)
    runs = [dict(label='C12/return', parts='C12_Parts', maxparts=n, onerrors=('return',), modes=('native', 'pytest'), limit=150000),
            dict(label='C12/raise', parts='C12_Parts', maxparts=n, onerrors=('raise',), modes=('native',), limit=150000),
            dict(label='C12/importfail', parts='C12_Parts', maxparts=2, onerrors=('return', 'raise'), modes=('native',), importoks=('FALSE',))]
    runlib.docrun_check(out, runs, nontrivial_fn=nontrivial)
    runlib.deviation_must_fail(out, 'C12_Parts', 2, 'NoStdoutRestore')
    out.assumptions = ['stderr is never swapped by the library; it is compared all the same',
                       'the doctest replaces sys.stdout by assignment inside a part; closing the capture stream is outside the property']
    from . import tracelib
    tracelib.traced_replay(out, 'C12_Parts<=2', 'C12_Parts', 2, onerrors=('return', 'raise'), modes=('native', 'pytest'))
    return out.finish()


replay = runlib.generic_replay
