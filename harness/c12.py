"""C12 - process-global state is restored after every outcome.

spec  : specs/DocRun.tla, alphabet C12_Parts (MC_DocRun.tla): parts that print,
        replace sys.stdout without restoring it, change the warning filters,
        await, x terminating outcomes {pass, mismatch, exception, expected
        exception, ExitTestException, all skipped, compile error, SystemExit,
        KeyboardInterrupt, import failure} at every position x on_error in
        {return, raise} x mode in {native, pytest}.  Invariant StdoutRestored
        (capture = "orig" in every terminal state, also on the exceptional
        exits) together with the general outcome invariants.
replay: every terminal state is run by the real DocTest.run; at the exit
        (normal or by exception) sys.stdout, sys.stderr, sys.path,
        warnings.filters, warnings.showwarning are compared with their values
        at entry and no event loop may be running.
import: specs/PathCtx.tla models PythonPathContext around an import by path
        whose module changes sys.path itself (insert at the front, append, drop
        the first / the last pre-existing entry, remove the temporary entry,
        bind sys.path to a new list object),
        succeeding or raising; invariant Restored (sys.path afterwards = the
        original list as changed by the module only).  Every behaviour is
        replayed into the real context manager; import_module_from_path on real
        files is exercised in harness/c17.py and through the pre-import of the
        run (success and five failure kinds).
capture: specs/Capture.tla models CaptureStdout / TeeStringIO (construct, enter,
        print, leave; two objects; suppressing or teeing; enabled or not) with
        the invariants PartsExact, NothingLostOrTwice, SuppressHides, TeeShows,
        RestoredLIFO, DisabledInert; every behaviour is stepped through the real
        objects and the projected state compared after each step.
"""
from . import common, runlib

BOUNDS = {'quick': 3, 'thorough': 4}

PATHCTX_INVS = ['Restored', 'NoForeignError', 'RuntimeErrorOnlyIfRemoved']


def pathctx_cfg(maxops, deviation=('Emit',)):
    return '\n'.join(['SPECIFICATION Spec', 'CONSTANTS', ' MaxOps = %d' % maxops, ' Deviation = {%s}' % ', '.join('"%s"' % d for d in deviation)]
                     + ['INVARIANT %s' % i for i in PATHCTX_INVS] + ['CHECK_DEADLOCK FALSE', ''])


def _apply_op(op):
    import sys
    if op == 'ins0':
        sys.path.insert(0, 'M1')
    elif op == 'app':
        sys.path.append('M2')
    elif op == 'pop0':
        sys.path.pop(0)
    elif op == 'rmlast':
        idx = [i for i, e in enumerate(sys.path) if e in ('e1', 'e2', 'e3')]
        if idx:
            sys.path.pop(idx[-1])
    elif op == 'rmtmp':
        if 'TMP' in sys.path:
            sys.path.remove('TMP')
    elif op == 'rebind':
        sys.path = list(sys.path)          # a new list object with the same entries (`sys.path = [...] + sys.path` idiom)


def pathctx_phase(out, tier):
    """specs/PathCtx.tla: PythonPathContext around an import whose module changes sys.path; every behaviour replayed"""
    import sys
    import warnings
    from . import tlaval
    from xdoctest.utils import util_import
    maxops = 3 if tier == 'quick' else 4
    res = common.run_tlc('PathCtx', pathctx_cfg(maxops), printed=True, timeout=600)
    common.tlc_must_pass(res, 'PathCtx')
    out.add_tlc(res, 'exhaustive:PathCtx<=%d ops' % maxops)
    if res.violated:
        raise common.MachineryError('spec-level invariant %s violated on the unchanged spec (PathCtx):\n%s' % (res.violated, res.stdout[-2000:]))
    n = 0
    real = list(sys.path)
    real_obj = sys.path
    for raw in sorted(common.iter_printed(res)):
        index, ops, raised, path, ghost, result = tlaval.parse_value(raw)
        given = 0 if index == 0 else -1
        got_result = 'ok'
        try:
            with warnings.catch_warnings(record=True) as wl:
                warnings.simplefilter('always')
                sys.path[:] = ['e1', 'e2', 'e3']
                ctx = util_import.PythonPathContext('TMP', given)
                ctx.__enter__()
                for op in ops:
                    _apply_op(op)
                try:
                    if raised:
                        ctx.__exit__(ImportError, ImportError('boom'), None)
                    else:
                        ctx.__exit__(None, None, None)
                    got_result = 'warned' if wl else 'ok'
                except Exception as ex:
                    got_result = type(ex).__name__
                got_path = list(sys.path)
        finally:
            sys.path = real_obj
            sys.path[:] = real
        n += 1
        out.traces += 1
        out.evaluations += 1
        bad = []
        if got_path != list(path):
            bad.append(('sys_path_after_context', list(path), got_path))
        if got_result != result:
            bad.append(('exit_result', result, got_result))
        if bad:
            out.violation({'kind': 'pathctx', 'fields': ','.join(sorted(b[0] for b in bad))},
                          {'index_given': given, 'module_operations': list(ops), 'import_raised': raised, 'disagreements': [(f, repr(a), repr(b)) for f, a, b in bad]})
    out.extra['pathctx_behaviours_replayed'] = n
    common.cleanup_scratch()
    for dev in ('NoElif', 'NoRecoverOnError', 'RememberedList'):
        r2 = common.run_tlc('PathCtx', pathctx_cfg(maxops, deviation=(dev,)), timeout=300)
        common.cleanup_scratch()
        if not r2.violated:
            raise common.MachineryError('vacuity control: deviation %s does not violate any invariant of PathCtx' % dev)
        out.extra.setdefault('deviations_rejected', {})[dev] = r2.violated


CAPTURE_INVS = ['PartsExact', 'NothingLostOrTwice', 'SuppressHides', 'TeeShows', 'RestoredLIFO', 'DisabledInert', 'NeverSwallows']


def capture_cfg(maxops, deviation=('Emit',)):
    return '\n'.join(['SPECIFICATION Spec', 'CONSTANTS', ' MaxOps = %d' % maxops, ' Deviation = {%s}' % ', '.join('"%s"' % d for d in deviation)]
                     + ['INVARIANT %s' % i for i in CAPTURE_INVS] + ['CHECK_DEADLOCK FALSE', ''])


def _capture_one(raw):
    """one behaviour of Capture.tla stepped through real CaptureStdout objects; the projected state is compared after every step"""
    import io
    import sys
    from . import tlaval
    from xdoctest.utils import util_stream
    suppress, enabled, ops, hist = tlaval.parse_value(raw)
    suppress = list(suppress.values()) if isinstance(suppress, dict) else list(suppress)
    enabled = list(enabled.values()) if isinstance(enabled, dict) else list(enabled)
    base = io.StringIO()
    real = sys.stdout
    caps = {}
    bad = []

    def txt(t):
        return None if t is None else [int(x) for x in t.split()]

    def name(stream):
        if stream is base:
            return 'base'
        for c, o in caps.items():
            if stream is o.cap_stdout:
                return 'cap%d' % c
        return 'other'
    sys.stdout = base
    swallowed = False
    try:
        for k, (op, exp) in enumerate(zip(ops, hist)):
            kind, arg = op
            if kind == 'new':
                caps[arg] = util_stream.CaptureStdout(suppress=suppress[arg - 1], enabled=enabled[arg - 1])
            elif kind == 'enter':
                caps[arg].__enter__()
            elif kind == 'exit':
                swallowed = bool(caps[arg].__exit__(None, None, None))
            elif kind == 'exitx':
                # an exception on its way out of the `with` block (a real one, with its traceback)
                try:
                    raise ValueError('raised inside the with block')
                except ValueError:
                    et, ev, tb = sys.exc_info()
                swallowed = bool(caps[arg].__exit__(et, ev, tb))
                del tb
            elif kind == 'print':
                # the token reaches sys.stdout in one of three ways (by token number): print, one write without a newline followed
                # by flush, two writes; a write answers the number of characters written, whatever it passes on to
                if arg % 3 == 0:
                    print(arg)
                else:
                    chunks = ['%d ' % arg] if arg % 3 == 1 else [str(arg), '\n']
                    for chunk in chunks:
                        n = sys.stdout.write(chunk)
                        if n != len(chunk):
                            bad.append(('write_return_step_%d_print' % (k + 1), len(chunk), n))
                    if arg % 3 == 1:
                        sys.stdout.flush()
            exp = dict(exp)
            got = {'out': name(sys.stdout), 'base': txt(base.getvalue()), 'sw': swallowed}
            for c in (1, 2):
                o = caps.get(c)
                got['t%d' % c] = [-1] if (o is None or o.text is None) else txt(o.text)
                got['n%d' % c] = 0 if o is None else len(o.parts)
            want = {'out': exp['out'], 'base': list(exp['base']), 't1': list(exp['t1']), 't2': list(exp['t2']), 'n1': exp['n1'], 'n2': exp['n2'], 'sw': bool(exp['sw'])}
            if got != want:
                bad.append(('state_after_step_%d_%s' % (k + 1, kind), want, got))
                break
    finally:
        sys.stdout = real
        for o in caps.values():
            o.started = False          # (the finaliser of a started object would put ITS stream back later)
    info = {'key': raw[:200]}
    if bad:
        info.update(bad=[(f, repr(a), repr(b)) for f, a, b in bad], ops=[list(o) for o in ops], suppress=suppress, enabled=enabled)
    return info


def capture_phase(out, tier):
    """specs/Capture.tla: CaptureStdout / TeeStringIO as a state machine (construct, enter, print, leave; two objects, suppressing or
    teeing, enabled or not); every behaviour of MaxOps steps is stepped through the real objects"""
    maxops = 6 if tier == 'quick' else 8
    res = common.run_tlc('Capture', capture_cfg(maxops), printed=True, timeout=1800)
    common.tlc_must_pass(res, 'Capture')
    out.add_tlc(res, 'exhaustive:Capture<=%d steps' % maxops)
    if res.violated:
        raise common.MachineryError('spec-level invariant %s violated on the unchanged spec (Capture):\n%s' % (res.violated, res.stdout[-2000:]))
    raws = sorted(set(common.iter_printed(res)))
    if not raws:
        raise common.MachineryError('Capture: TLC printed no behaviour')
    limit = 30000 if tier == 'quick' else 200000
    if len(raws) > limit:
        import random
        raws = random.Random(common.seed()).sample(raws, limit)
        out.extra['replay_sampled'] = True
    infos = common.parallel_map(_capture_one, raws, chunk=200)
    for info in infos:
        out.traces += 1
        out.evaluations += 1
        out.count_nontrivial(info['key'])
        if 'bad' in info:
            out.violation({'kind': 'capture', 'fields': ','.join(sorted({b[0].split('_step_')[0] + '_' + b[0].rsplit('_', 1)[1] for b in info['bad']}))},
                          {'suppress': info['suppress'], 'enabled': info['enabled'], 'operations': info['ops'], 'disagreements': info['bad']})
    out.extra['capture_behaviours_replayed'] = len(raws)
    common.cleanup_scratch()
    for dev in ('NoPosition', 'TeeWhenSuppressed', 'SwallowWhenSuppressed'):
        r2 = common.run_tlc('Capture', capture_cfg(7, deviation=(dev,)), timeout=300)
        common.cleanup_scratch()
        if not r2.violated:
            raise common.MachineryError('vacuity control: deviation %s does not violate any invariant of Capture' % dev)
        out.extra.setdefault('deviations_rejected', {})[dev] = r2.violated


def zip_phase(out):
    """import by path from inside a zip archive ('<archive>.zip/<member>.py', also with ':'), succeeding and failing: sys.path,
    the warning filters and the standard streams must be what they were (the first such import of the process is the one
    that could install something)"""
    import os
    import sys
    import warnings
    import zipfile
    from xdoctest.utils import util_import
    d = common.scratch_dir('xdv-c12zip')
    arch = os.path.join(d, 'xdvarch.zip')
    with zipfile.ZipFile(arch, 'w') as z:
        z.writestr('xdvztop.py', 'V = 1\n')
        z.writestr('xdvzfolder/xdvzbar.py', 'V = 2\n')
        z.writestr('xdvzboom.py', 'raise RuntimeError("import boom")\n')
    cases = [(arch + '/xdvztop.py', True), (arch + ':xdvzfolder/xdvzbar.py', True), (arch + os.path.sep + 'xdvzboom.py', False),
             (arch + '/xdvzmissing.py', False), (os.path.join(d, 'nothere.zip') + '/x.py', False), (arch + '/xdvztop.py', True)]
    for path, ok in cases:
        before = (list(sys.path), list(warnings.filters), sys.stdout, sys.stderr, warnings.showwarning)
        got = 'returned'
        try:
            old = sys.stdout
            import io
            sink = io.StringIO()
            sys.stdout = sink
            try:
                before = (list(sys.path), list(warnings.filters), sys.stdout, sys.stderr, warnings.showwarning)
                util_import.import_module_from_path(path)
            finally:
                after = (list(sys.path), list(warnings.filters), sys.stdout, sys.stderr, warnings.showwarning)
                sys.stdout = old
        except Exception as ex:
            got = 'raised ' + type(ex).__name__
        out.traces += 1
        out.evaluations += 1
        bad = []
        if (got == 'returned') != ok:
            bad.append(('import_from_zip', 'returns' if ok else 'raises', got))
        for name, a, b in zip(('sys_path', 'warning_filters', 'stdout', 'stderr', 'showwarning'), before, after):
            if (a is not b) if name in ('stdout', 'stderr', 'showwarning') else (a != b):
                bad.append((name + '_restored', 'unchanged', [x for x in b if x not in a][:3] if isinstance(b, list) else repr(b)[:100]))
        if bad:
            out.violation({'kind': 'zip_import', 'fields': ','.join(sorted(x[0] for x in bad))},
                          {'path': os.path.relpath(path, d), 'outcome': got, 'disagreements': [(f, repr(a), repr(b)) for f, a, b in bad]})
        warnings.filters[:] = before[1]
        sys.path[:] = before[0]
    for m in ('xdvztop', 'xdvzfolder/xdvzbar', 'xdvzfolder', 'xdvzboom'):
        sys.modules.pop(m, None)
    out.extra['zip_import_cases'] = len(cases)


def nontrivial(info):
    return True


def run(tier):
    out = common.Outcome('C12', tier)
    n = BOUNDS[tier]
    out.rule = ('every program of <= %d parts over C12_Parts (14 part kinds) x on_error x mode x import success/failure reachable in DocRun.tla; '
                'each terminal state (normal return or propagated exception) is one case' % n)
    runs = [dict(label='C12/return', parts='C12_Parts', maxparts=n, onerrors=('return',), modes=('native', 'pytest'), limit=150000, verbose='rotate'),
            dict(label='C12/raise', parts='C12_Parts', maxparts=n, onerrors=('raise',), modes=('native',), limit=150000, verbose='rotate'),
            dict(label='C12/importfail', parts='C12_Parts', maxparts=2, onerrors=('return', 'raise'), modes=('native',), importoks=('FALSE',), verbose='rotate')]
    runlib.docrun_check(out, runs, nontrivial_fn=nontrivial)
    runlib.deviation_must_fail(out, 'C12_Parts', 2, 'NoStdoutRestore')
    zip_phase(out)           # first: no zip import has happened in this process yet
    pathctx_phase(out, tier)
    capture_phase(out, tier)
    out.assumptions = ['stderr is never swapped by the library; it is compared all the same',
                       'the doctest replaces sys.stdout by assignment inside a part, or closes the capture stream (body kind closeout); verbosity 0..3 rotates '
                       '(from 2 on the output is shown while it is captured)']
    # random longer programs (5..8 parts) from TLC's simulation mode over the same specification
    runlib.simulate_replay(out, 'C12_Parts' + ' 5..8 parts', 'C12_Parts', 5, 8, 800 if tier == 'quick' else 15000, onerrors=('return', 'raise'), modes=('native', 'pytest'), verbose='rotate')
    from . import tracelib
    tracelib.traced_replay(out, 'C12_Parts<=2', 'C12_Parts', 2, onerrors=('return', 'raise'), modes=('native', 'pytest'))
    return out.finish()


replay = runlib.generic_replay
