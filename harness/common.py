"""Shared plumbing: TLC runner, evidence writer, findings matcher, replay files."""
import hashlib
import json
import os
import re
import shutil
import subprocess
import sys
import tempfile
import time

VERIF = os.path.dirname(os.path.dirname(os.path.abspath(__file__)))
SPECS = os.path.join(VERIF, 'specs')
EVIDENCE = os.environ.get('XDV_EVIDENCE') or os.path.join(VERIF, 'evidence')   # redirected only by the mutant tooling
REPLAYS = os.path.join(EVIDENCE, 'replays')
REPO = os.environ.get('XDV_REPO', '/repo')
SRC = os.environ.get('XDV_SRC', os.path.join(REPO, 'src'))
PY = '/venv/bin/python'
NPROC = min(16, os.cpu_count() or 1)
TLA_JAR = '/opt/veriftools/tla/tla2tools.jar'
TLA_DEPS = '/opt/veriftools/tla/CommunityModules-deps.jar'


class MachineryError(Exception):
    """The verification machinery itself failed (exit code 2)."""


def seed():
    try:
        return int(os.environ.get('VERIF_SEED', '0'))
    except ValueError:
        return 0


_SCRATCH = []


def scratch_dir(tag='xdv'):
    d = tempfile.mkdtemp(prefix='%s-' % tag)
    _SCRATCH.append(d)
    return d


def cleanup_scratch():
    while _SCRATCH:
        shutil.rmtree(_SCRATCH.pop(), ignore_errors=True)


class TlcResult:
    def __init__(self):
        self.returncode = None
        self.stdout = ''
        self.generated = 0
        self.distinct = 0
        self.depth = 0
        self.violated = None       # name of violated invariant / property
        self.error = None          # other error text
        self.coverage = {}         # action name -> (distinct, generated) when -coverage
        self.wall_s = 0.0
        self.cmd = ''
        self.dump = None
        self.timed_out = False
        self.printed = None

    @property
    def ok(self):
        return self.returncode == 0 and self.violated is None and self.error is None


_RE_STATES = re.compile(r'(\d+) states generated, (\d+) distinct states found')
_RE_DEPTH = re.compile(r'The depth of the complete state graph search is (\d+)')
_RE_INV = re.compile(r'Error: Invariant (\S+) is violated')
_RE_PROP = re.compile(r'Error: (Action|Temporal) propert(?:y|ies) (\S*)')
_RE_COV = re.compile(r'^<(\w+) line \d+, col \d+ to line \d+, col \d+ of module (\w+)>: (\d+):(\d+)', re.M)


def run_tlc(spec, cfg_text, *, workers=None, dump=False, simulate=None, depth=None,
            seed_=None, coverage=False, timeout=1800, env=None, extra=None, deque=False,
            keep_dir=False, printed=False, jvm=()):
    """Run TLC on /verif/specs/<spec>.tla with the given cfg text.

    simulate: dict(num=..., file=<prefix or None>) -> `-simulate`.
    Returns TlcResult; result.dump is the dump path if dump=True (caller must
    consume it before cleanup_scratch()).
    """
    work = scratch_dir('xdv-tlc')
    cfg = os.path.join(work, 'MC.cfg')
    with open(cfg, 'w') as f:
        f.write(cfg_text)
    meta = os.path.join(work, 'meta')
    jopts = ['-XX:+UseParallelGC', '-Xmx24g']
    if deque:
        jopts.append('-Dtlc2.tool.queue.IStateQueue=StateDeque')
    jopts += list(jvm)
    cmd = ['java'] + jopts + ['-cp', TLA_JAR + ':' + TLA_DEPS, 'tlc2.TLC',
                               '-config', cfg, '-metadir', meta, '-noGenerateSpecTE',
                               '-workers', str(workers or NPROC)]
    if coverage:
        cmd += ['-coverage', '1']
    res = TlcResult()
    if dump:
        res.dump = os.path.join(work, 'states')
        cmd += ['-dump', res.dump]
    if simulate is not None:
        arg = 'num=%d' % simulate['num']
        if simulate.get('file'):
            arg = 'file=%s,' % simulate['file'] + arg
        cmd += ['-simulate', arg]
        if depth:
            cmd += ['-depth', str(depth)]
        if seed_ is not None:
            cmd += ['-seed', str(seed_)]
    else:
        cmd += ['-deadlock'] if False else []
    if extra:
        cmd += list(extra)
    cmd += [spec + '.tla']
    res.cmd = ' '.join(cmd)
    e = dict(os.environ)
    if env:
        e.update(env)
    t0 = time.time()
    if printed:
        # the spec prints one `"XDV ..."` line per case (PrintT of ToString): keep them in a file, the rest in memory
        res.printed = os.path.join(work, 'tlc.out')
        with open(res.printed, 'w') as fo:
            try:
                p = subprocess.run(cmd, cwd=SPECS, env=e, stdout=fo, stderr=subprocess.STDOUT, timeout=timeout)
                res.returncode = p.returncode
            except subprocess.TimeoutExpired:
                res.timed_out = True
                res.returncode = -9
                subprocess.run(['pkill', '-f', meta], check=False)
        keep = []
        with open(res.printed, errors='replace') as fi:
            for line in fi:
                if not line.startswith('"XDV '):
                    keep.append(line)
        res.stdout = ''.join(keep[-4000:])
    else:
      try:
        p = subprocess.run(cmd, cwd=SPECS, env=e, stdout=subprocess.PIPE, stderr=subprocess.STDOUT,
                           timeout=timeout, text=True)
        res.returncode = p.returncode
        res.stdout = p.stdout
      except subprocess.TimeoutExpired as ex:
        res.timed_out = True
        res.returncode = -9
        out = ex.stdout
        if isinstance(out, bytes):
            out = out.decode('utf8', 'replace')
        res.stdout = out or ''
        subprocess.run(['pkill', '-f', meta], check=False)
    res.wall_s = time.time() - t0
    if res.dump:
        res.dump = res.dump + '.dump'
    ms = _RE_STATES.findall(res.stdout)
    if ms:
        res.generated, res.distinct = int(ms[-1][0]), int(ms[-1][1])
    m = _RE_DEPTH.search(res.stdout)
    if m:
        res.depth = int(m.group(1))
    m = _RE_INV.search(res.stdout)
    if m:
        res.violated = m.group(1)
    else:
        m = _RE_PROP.search(res.stdout)
        if m:
            res.violated = m.group(2) or 'property'
    for m in _RE_COV.finditer(res.stdout):
        name = m.group(1)
        a, b = int(m.group(3)), int(m.group(4))
        pa, pb = res.coverage.get(name, (0, 0))
        res.coverage[name] = (pa + a, pb + b)
    if res.violated is None and res.returncode not in (0,) and not (simulate is not None and res.timed_out):
        # extract first error block
        idx = res.stdout.find('Error:')
        res.error = res.stdout[idx:idx + 2000] if idx >= 0 else ('TLC exit %s\n' % res.returncode) + res.stdout[-2000:]
    return res


def iter_printed(res):
    """yield the raw TLA+ value text of every `"XDV <value>"` line TLC printed"""
    with open(res.printed, errors='replace') as fi:
        for line in fi:
            if line.startswith('"XDV '):
                yield line[5:].rstrip('\n')[:-1].replace('\\"', '"')


def tlc_must_pass(res, what):
    if res.timed_out:
        raise MachineryError('TLC timed out: %s' % what)
    if res.error:
        raise MachineryError('TLC error in %s: %s' % (what, res.error))


def sany(spec_path):
    cmd = ['java', '-cp', TLA_JAR + ':' + TLA_DEPS, 'tla2sany.SANY', os.path.basename(spec_path)]
    p = subprocess.run(cmd, cwd=os.path.dirname(spec_path), stdout=subprocess.PIPE, stderr=subprocess.STDOUT, text=True)
    ok = p.returncode == 0 and 'error' not in p.stdout.lower().replace('semantic errors:\n\n', '')
    return ok, p.stdout


# ---------------------------------------------------------------------------
# findings

def load_findings():
    p = os.path.join(VERIF, 'known_findings.json')
    if not os.path.exists(p):
        return []
    with open(p) as f:
        return json.load(f)['findings']


def match_known(prop, case_sig):
    """Return the known (unrepaired) finding whose signature is contained in case_sig."""
    for f in load_findings():
        if f.get('property') != prop or f.get('status') != 'known':
            continue
        sig = f.get('signature', {})
        if sig and all(case_sig.get(k) == v for k, v in sig.items()):
            return f
    return None


# ---------------------------------------------------------------------------
# results / evidence

class Outcome:
    """Accumulates what a check run covered and what it found."""

    def __init__(self, prop, tier):
        self.prop = prop
        self.tier = tier
        self.t0 = time.time()
        self.states = 0
        self.transitions = 0
        self.traces = 0            # cases replayed / traces validated against the implementation
        self.evaluations = 0
        self.nontrivial = set()
        self.nontrivial_count = 0
        self.samples = []
        self.violations = []       # list of (replay_path, summary)
        self.known_hits = {}       # finding id -> count
        self.assumptions = []
        self.extra = {}
        self.rule = ''
        self.exhaustive = False
        self.tlc_cmds = []
        self.coverage_actions = {}

    def add_tlc(self, res, label=None):
        self.states += res.distinct
        self.transitions += res.generated
        self.tlc_cmds.append((label or '') + ': ' + res.cmd.split('tlc2.TLC ')[-1] + '  [%d distinct, %d generated, %.1fs]' % (res.distinct, res.generated, res.wall_s))
        for k, v in res.coverage.items():
            a, b = self.coverage_actions.get(k, (0, 0))
            self.coverage_actions[k] = (a + v[0], b + v[1])

    def sample(self, s, limit=6):
        if len(self.samples) < limit:
            self.samples.append(s)

    def count_nontrivial(self, key):
        """key: hashable identity of a non-trivial case."""
        h = hash(key)
        if h not in self.nontrivial:
            self.nontrivial.add(h)
            self.nontrivial_count += 1

    def violation(self, case_sig, detail):
        """Register a disagreement between spec prediction and implementation.

        case_sig: dict describing the abstract case (matched against known findings).
        detail: json-serialisable dict written to the replay file.
        """
        kf = match_known(self.prop, case_sig)
        if kf is not None:
            self.known_hits[kf['id']] = self.known_hits.get(kf['id'], 0) + 1
            self.extra.setdefault('known_finding_examples', {}).setdefault(kf['id'], detail if len(json.dumps(detail, default=str)) < 4000 else case_sig)
            return False
        os.makedirs(REPLAYS, exist_ok=True)
        blob = json.dumps({'property': self.prop, 'signature': case_sig, 'detail': detail}, indent=1, sort_keys=True, default=str)
        h = hashlib.sha1(blob.encode()).hexdigest()[:12]
        path = os.path.join(REPLAYS, '%s-%s.json' % (self.prop, h))
        sk = json.dumps(case_sig, sort_keys=True, default=str)
        self._per_sig = getattr(self, '_per_sig', {})
        paths = self._per_sig.setdefault(sk, [])
        if len(paths) < 4 and len(self._per_sig) <= 12:
            with open(path, 'w') as f:
                f.write(blob)
            paths.append(path)
            self.violations.append((path, case_sig))
        else:
            self.violations.append(((paths or self.violations[0:1] and [self.violations[0][0]])[0], case_sig))
        return True

    def finish(self, level='model_checking'):
        wall = time.time() - self.t0
        os.makedirs(EVIDENCE, exist_ok=True)
        cov = {
            'states': max(self.states, 0),
            'transitions': max(self.transitions, 0),
            'traces_validated_against_impl': self.traces,
            'samples': self.samples or ['(none)'],
            'evaluations': self.evaluations,
            'distinct_nontrivial': self.nontrivial_count,
            'rule': self.rule,
            'exhaustive': self.exhaustive,
            'checker_cmd': ' ;; '.join(self.tlc_cmds),
            'tlc_action_coverage': {k: {'distinct': v[0], 'generated': v[1]} for k, v in sorted(self.coverage_actions.items())},
            'known_findings_hit': self.known_hits,
        }
        cov.update(self.extra)
        ev = {
            'property_id': self.prop,
            'tier': self.tier,
            'seed': seed(),
            'level': level,
            'coverage': cov,
            'assumptions': self.assumptions,
            'wall_s': round(wall, 2),
            'violations': len(self.violations),
        }
        with open(os.path.join(EVIDENCE, '%s.json' % self.prop), 'w') as f:
            json.dump(ev, f, indent=1, default=str)
            f.write('\n')
        for f_ in load_findings():
            if f_['id'] in self.known_hits and f_.get('property') == self.prop and f_.get('status') == 'known':
                print('KNOWN-FINDING: property=%s %s (%s; %d case(s) this run)' % (self.prop, f_['what'], f_['id'], self.known_hits[f_['id']]))
        bysig = {}
        for path, sig in self.violations:
            k = json.dumps(sig, sort_keys=True, default=str)
            bysig[k] = bysig.get(k, 0) + 1
        for k, n in sorted(bysig.items(), key=lambda kv: -kv[1])[:12]:
            print('  violations with signature %s: %d' % (k, n))
        seen = set()
        for path, sig in self.violations:
            if path in seen:
                continue
            seen.add(path)
            print('VIOLATION property=%s replay=%s' % (self.prop, path))
        print('%s %s: states=%d transitions=%d impl_cases=%d evaluations=%d nontrivial=%d violations=%d known=%s wall=%.1fs' % (
            self.prop, self.tier, self.states, self.transitions, self.traces, self.evaluations,
            self.nontrivial_count, len(self.violations), dict(self.known_hits), wall))
        return 1 if self.violations else 0


def chunks(seq, n):
    for i in range(0, len(seq), n):
        yield seq[i:i + n]


def parallel_map(func, items, procs=None, chunk=200):
    """Map func over items with fork-based multiprocessing (func must be module-level)."""
    import multiprocessing as mp
    procs = procs or NPROC
    if (len(items) < 50 and chunk != 1) or procs == 1:
        return [func(x) for x in items]
    ctx = mp.get_context('fork')
    with ctx.Pool(procs) as pool:
        return pool.map(func, items, chunksize=max(1, min(chunk, len(items) // (procs * 4) or 1)))


# ---------------------------------------------------------------------------
# a map that survives items on which the implementation never returns, also when it is stuck inside C code (a regular
# expression that backtracks for hours holds the GIL: neither a Python signal handler nor a Python thread gets to run)

_HANG = {}


def _hangsafe_chunk(args):
    import faulthandler
    func, items, deadline, hang_dir = args
    side = os.path.join(hang_dir, 'item-%d.json' % os.getpid())
    sink = _HANG.setdefault('sink', open(os.devnull, 'w'))
    out = []
    for it in items:
        with open(side, 'w') as f:
            json.dump(it, f, default=str)
        faulthandler.dump_traceback_later(deadline, exit=True, file=sink)       # a C-level watchdog thread: _exit(1) at the deadline
        try:
            out.append(func(it))
        finally:
            faulthandler.cancel_dump_traceback_later()
    os.unlink(side)
    return out


def parallel_map_hangsafe(func, items, chunk=100, deadline=60, procs=None):
    """-> (results of the items that finished [order kept among them], items on which a worker had to be killed at the deadline)"""
    import multiprocessing as mp
    from concurrent.futures import ProcessPoolExecutor
    from concurrent.futures.process import BrokenProcessPool
    procs = procs or NPROC
    hang_dir = scratch_dir('xdv-hang')
    chunks = [items[i:i + chunk] for i in range(0, len(items), chunk)]
    results, hung = [], []
    ex = ProcessPoolExecutor(procs, mp_context=mp.get_context('fork'))
    try:
        futs = [ex.submit(_hangsafe_chunk, (func, c, deadline, hang_dir)) for c in chunks]
        for f in futs:
            try:
                results.extend(f.result())
            except BrokenProcessPool:
                break
    finally:
        ex.shutdown(wait=False, cancel_futures=True)
    for name in sorted(os.listdir(hang_dir)):
        if name.startswith('item-'):
            try:
                hung.append(json.load(open(os.path.join(hang_dir, name))))
            except Exception:
                hung.append('<unreadable item>')
    if hung:
        # only the items of workers that were INSIDE an item when the pool broke; those that were merely interrupted are not hangs:
        # re-run each candidate alone, under the same deadline, to tell them apart
        confirmed = []
        for it in hung:
            p = mp.get_context('fork').Process(target=_hangsafe_chunk, args=((func, [it], deadline, hang_dir + '-confirm'),))
            os.makedirs(hang_dir + '-confirm', exist_ok=True)
            p.start()
            p.join(deadline + 30)
            if p.is_alive():
                p.kill()
                p.join()
            if p.exitcode != 0:
                confirmed.append(it)
        import shutil
        shutil.rmtree(hang_dir + '-confirm', ignore_errors=True)
        hung = confirmed
    return results, hung
