"""Parser for TLA+ values as printed by TLC (dumps, -simulate files, PrintT).

Maps: <<..>> -> tuple, {..} -> frozenset, [a |-> v, ..] -> dict,
(k :> v @@ ..) -> dict, "s" -> str, ints, TRUE/FALSE -> bool,
model values / identifiers -> str prefixed with '@'.
A function whose domain is 1..n is NOT converted to a tuple (TLC prints those
as <<..>> already).
"""
import re

_TOKEN = re.compile(r'''
    \s*(?:
      (?P<str>"(?:[^"\\]|\\.)*")
    | (?P<int>-?\d+)
    | (?P<op><<|>>|\|->|:>|@@|\.\.|[\[\]{}(),])
    | (?P<id>[A-Za-z_][A-Za-z0-9_!]*)
    )''', re.X)


class TlaParseError(Exception):
    pass


def tokenize(text):
    pos = 0
    n = len(text)
    out = []
    while pos < n:
        m = _TOKEN.match(text, pos)
        if not m:
            if text[pos:].strip() == '':
                break
            raise TlaParseError('bad token at %r' % text[pos:pos + 40])
        pos = m.end()
        kind = m.lastgroup
        out.append((kind, m.group(kind)))
    return out


_ESC = {'n': '\n', 't': '\t', 'r': '\r', 'f': '\f', '"': '"', '\\': '\\'}


def _unescape(s):
    s = s[1:-1]
    if '\\' not in s:
        return s
    out = []
    i = 0
    while i < len(s):
        c = s[i]
        if c == '\\' and i + 1 < len(s):
            out.append(_ESC.get(s[i + 1], s[i + 1]))
            i += 2
        else:
            out.append(c)
            i += 1
    return ''.join(out)


class _P:
    def __init__(self, toks):
        self.t = toks
        self.i = 0

    def peek(self):
        return self.t[self.i] if self.i < len(self.t) else (None, None)

    def next(self):
        tok = self.t[self.i]
        self.i += 1
        return tok

    def expect(self, val):
        k, v = self.next()
        if v != val:
            raise TlaParseError('expected %r got %r' % (val, v))

    def value(self):
        k, v = self.next()
        if k == 'str':
            return _unescape(v)
        if k == 'int':
            if self.peek() == ("op", ".."):
                self.next()
                k2, v2 = self.next()
                return frozenset(range(int(v), int(v2) + 1))
            return int(v)
        if k == 'id':
            if v == 'TRUE':
                return True
            if v == 'FALSE':
                return False
            return '@' + v
        if v == '<<':
            items = []
            if self.peek()[1] == '>>':
                self.next()
                return ()
            while True:
                items.append(self.value())
                k2, v2 = self.next()
                if v2 == '>>':
                    return tuple(items)
                if v2 != ',':
                    raise TlaParseError('in tuple: %r' % v2)
        if v == '{':
            items = []
            if self.peek()[1] == '}':
                self.next()
                return frozenset()
            while True:
                items.append(_freeze(self.value()))
                k2, v2 = self.next()
                if v2 == '}':
                    return frozenset(items)
                if v2 != ',':
                    raise TlaParseError('in set: %r' % v2)
        if v == '[':
            d = {}
            if self.peek()[1] == ']':
                self.next()
                return d
            while True:
                kk, name = self.next()
                if kk != 'id':
                    raise TlaParseError('record field %r' % name)
                self.expect('|->')
                d[name] = self.value()
                k2, v2 = self.next()
                if v2 == ']':
                    return d
                if v2 != ',':
                    raise TlaParseError('in record: %r' % v2)
        if v == '(':
            d = {}
            while True:
                key = _freeze(self.value())
                self.expect(':>')
                d[key] = self.value()
                k2, v2 = self.next()
                if v2 == ')':
                    return d
                if v2 != '@@':
                    raise TlaParseError('in function: %r' % v2)
        raise TlaParseError('unexpected %r' % v)


class FrozenDict(dict):
    def __hash__(self):
        return hash(frozenset(self.items()))


def _freeze(v):
    if isinstance(v, dict):
        return FrozenDict((k, _freeze(x)) for k, x in v.items())
    if isinstance(v, tuple):
        return tuple(_freeze(x) for x in v)
    return v


def parse_value(text):
    p = _P(tokenize(text))
    v = p.value()
    if p.i != len(p.t):
        raise TlaParseError('trailing tokens: %r' % (p.t[p.i:p.i + 5],))
    return v


_STATE_HDR = re.compile(r'^State \d+:')
_CONJ = re.compile(r'^/\\ (\w+) = ')


def iter_dump_states(path):
    """Yield dicts var->value from a TLC `-dump` file."""
    cur = None
    buf = None
    name = None
    with open(path) as f:
        for line in f:
            if _STATE_HDR.match(line):
                if cur is not None:
                    if name is not None:
                        cur[name] = parse_value(''.join(buf))
                    yield cur
                cur = {}
                name = None
                buf = None
                continue
            if cur is None:
                continue
            m = _CONJ.match(line)
            if m:
                if name is not None:
                    cur[name] = parse_value(''.join(buf))
                name = m.group(1)
                buf = [line[m.end():]]
            elif name is not None:
                buf.append(line)
        if cur is not None:
            if name is not None:
                cur[name] = parse_value(''.join(buf))
            yield cur


_SIM_STATE = re.compile(r'^STATE_(\d+) ==')
_SIM_ACT = re.compile(r'^\\\* <(\w+) ')


def parse_sim_trace(path):
    """Parse one behaviour file written by `tlc -simulate file=...`.

    Returns list of (action_name_or_None, statedict).
    """
    out = []
    act = None
    cur = None
    name = None
    buf = None

    def flush():
        nonlocal cur, name, buf
        if cur is not None:
            if name is not None:
                cur[name] = parse_value(''.join(buf))
            out.append((cur.pop('__act__'), cur))
        cur = None
        name = None
        buf = None

    with open(path) as f:
        for line in f:
            m = _SIM_ACT.match(line)
            if m:
                flush()
                act = m.group(1)
                continue
            if _SIM_STATE.match(line):
                flush()
                cur = {'__act__': act}
                act = None
                continue
            if cur is None:
                continue
            m = _CONJ.match(line)
            if m:
                if name is not None:
                    cur[name] = parse_value(''.join(buf))
                name = m.group(1)
                buf = [line[m.end():]]
            elif line.strip() == '' or line.startswith('===='):
                flush()
            elif name is not None:
                buf.append(line)
    flush()
    return out


def to_tla(v):
    """Render a Python value as a TLA+ expression (inverse of parse_value)."""
    if isinstance(v, bool):
        return 'TRUE' if v else 'FALSE'
    if isinstance(v, int):
        return str(v)
    if isinstance(v, str):
        if v.startswith('@'):
            return v[1:]
        return '"' + v.replace('\\', '\\\\').replace('"', '\\"').replace('\n', '\\n').replace('\t', '\\t').replace('\r', '\\r') + '"'
    if isinstance(v, (tuple, list)):
        return '<<' + ', '.join(to_tla(x) for x in v) + '>>'
    if isinstance(v, (set, frozenset)):
        return '{' + ', '.join(sorted(to_tla(x) for x in v)) + '}'
    if isinstance(v, dict):
        if all(isinstance(k, str) and re.match(r'^[A-Za-z_]\w*$', k) for k in v):
            return '[' + ', '.join('%s |-> %s' % (k, to_tla(x)) for k, x in v.items()) + ']'
        if not v:
            return '<<>>'
        return '(' + ' @@ '.join('%s :> %s' % (to_tla(k), to_tla(x)) for k, x in v.items()) + ')'
    raise TypeError(type(v))
