"""Shared by C05/C06: token <-> text mapping, enumeration of the spec's text spaces,
calls into the real checker, TLC drivers for Match.tla / MatchTrace.tla."""
import itertools
import json
import os
import random
import re

from . import common, tlaval

TOK = {
    'A': 'a', 'B': 'b', 'U': 'u', 'R': 'r', 'SQ': "'", 'DQ': '"',
    'SP': ' ', 'TAB': '\t', 'NL': '\n', 'CR': '\r', 'DOT': '.', 'ELL': '...',
    'ANSI': '\x1b[31m', 'BL': '<BLANKLINE>',
}
FLAGS = ['ELLIPSIS', 'NORMALIZE_WHITESPACE', 'IGNORE_WHITESPACE', 'NORMALIZE_REPR', 'DONT_ACCEPT_BLANKLINE']
ALL_FLAGSETS = [frozenset(c) for n in range(len(FLAGS) + 1) for c in itertools.combinations(FLAGS, n)]

_TOKEN_RE = re.compile('|'.join(re.escape(v) for k, v in sorted(TOK.items(), key=lambda kv: -len(kv[1])) if k != 'ELL'))
_REV = {v: k for k, v in TOK.items() if k != 'ELL'}


def to_str(toks):
    return ''.join(TOK[t] for t in toks)


def tokenize(text):
    """Inverse of to_str for texts inside the alphabet (never produces ELL); None otherwise."""
    out = []
    pos = 0
    while pos < len(text):
        m = _TOKEN_RE.match(text, pos)
        if not m:
            return None
        out.append(_REV[m.group(0)])
        pos = m.end()
    # the token model treats <BLANKLINE> and the colour code as atoms: refuse texts in
    # which their characters could interact with neighbours at character level
    return out


def texts(alphabet, n):
    alphabet = sorted(alphabet)
    for k in range(n + 1):
        for t in itertools.product(alphabet, repeat=k):
            yield t


def runstate(flags):
    from xdoctest import directive
    return directive.RuntimeState({f: (f in flags) for f in FLAGS})


def impl_check_output(got, want, rs):
    from xdoctest import checker
    return bool(checker.check_output(got, want, rs))


def impl_ellipsis(got, want):
    from xdoctest import checker
    return bool(checker._ellipsis_match(got, want))


def has_ell(toks):
    return '...' in to_str(toks)


def cfg(alphabet, maxgot, maxwant, mode, invariants, deviation=()):
    lines = ['SPECIFICATION Spec', 'CONSTANTS',
             ' Alphabet = {%s}' % ', '.join('"%s"' % a for a in sorted(alphabet)),
             ' MaxGot = %d' % maxgot, ' MaxWant = %d' % maxwant, ' Mode = "%s"' % mode,
             ' Deviation = {%s}' % ', '.join('"%s"' % d for d in deviation)]
    lines += ['INVARIANT %s' % i for i in invariants]
    lines += ['CHECK_DEADLOCK FALSE', '']
    return '\n'.join(lines)


TRACE_CFG = 'SPECIFICATION TraceSpec\nCONSTANT Deviation = {}\nINVARIANT Report\nPOSTCONDITION TraceAccepted\nCHECK_DEADLOCK FALSE\n'


def validate_trace(events, out, label):
    """events: list of dicts (k, got, want, flags, res) with token lists.
    Splits over several single-worker TLC processes. Returns list of bad events."""
    if not events:
        return []
    import concurrent.futures as cf
    nproc = min(common.NPROC, max(1, len(events) // 400))
    size = (len(events) + nproc - 1) // nproc
    work = common.scratch_dir('xdv-mtrace')
    jobs = []
    for j, part in enumerate(common.chunks(events, size)):
        path = os.path.join(work, 'trace_%d.ndjson' % j)
        with open(path, 'w') as f:
            for e in part:
                f.write(json.dumps(e) + '\n')
        jobs.append((j, path, part))

    def one(job):
        j, path, part = job
        res = common.run_tlc('MatchTrace', TRACE_CFG, workers=1, env={'TRACE_FILE': path}, timeout=3000, jvm=['-Xss1g'])      # long texts recurse deeply
        return job, res

    bad = []
    with cf.ThreadPoolExecutor(nproc) as ex:
        for (j, path, part), res in ex.map(one, jobs):
            common.tlc_must_pass(res, 'MatchTrace %s part %d' % (label, j))
            out.add_tlc(res, 'trace:%s[%d]' % (label, j))
            m = re.search(r'<<"TRACE_DIAMETER", (\d+), "LEN", (\d+)>>', res.stdout)
            if not m or int(m.group(1)) - 1 != int(m.group(2)) or int(m.group(2)) != len(part):
                raise common.MachineryError('trace %s part %d not fully consumed: %s' % (label, j, res.stdout[-1500:]))
            m = re.search(r'<<\s*"TRACE_BAD",\s*(\{[^}]*\})\s*>>', res.stdout)
            if not m:
                raise common.MachineryError('no TRACE_BAD report: ' + res.stdout[-1500:])
            for idx in sorted(tlaval.parse_value(m.group(1))):
                bad.append(part[idx - 1])
            if res.violated:
                raise common.MachineryError('trace spec invariant violated: %s' % res.violated)
    return bad


def derive_pairs(rng, alphabet, n, maxlen=14):
    """Random longer (got, want) token pairs: wants derived from gots by replacing
    substrings with ELL, plus perturbations, so that matches and near-misses both occur."""
    alphabet = sorted(a for a in alphabet if a != 'ELL')
    out = []
    for _ in range(n):
        g = [rng.choice(alphabet) for _ in range(rng.randint(1, maxlen))]
        w = list(g)
        for _ in range(rng.randint(1, 3)):
            if not w:
                break
            i = rng.randrange(len(w) + 1)
            j = min(len(w), i + rng.randint(0, 4))
            w[i:j] = ['ELL']
        r = rng.random()
        if r < 0.35 and w:
            i = rng.randrange(len(w))
            w[i] = rng.choice(alphabet)
        elif r < 0.5 and w:
            i = rng.randrange(len(w))
            del w[i]
        elif r < 0.6:
            i = rng.randrange(len(w) + 1)
            w.insert(i, rng.choice(alphabet + ['ELL']))
        elif r < 0.7 and len(w) > 2:
            # duplicate a literal piece after a wildcard: the classic overlap case
            i = rng.randrange(len(w))
            w = w + ['ELL'] + w[i:]
        out.append((tuple(g), tuple(w)))
    return out


def derive_long_pairs(rng, n):
    """long texts (20..60 tokens) whose wants carry 9..14 wildcards: properties that only show beyond small counts
    (a ninth wildcard, a forty-first blank) are out of reach of the exhaustive spaces"""
    out = []
    for _ in range(n):
        g = [rng.choice(['A', 'B', 'A', 'B', 'SP']) for _ in range(rng.randint(20, 60))]
        w = list(g)
        k = rng.randint(9, 14)
        cuts = sorted(rng.sample(range(len(w)), min(k, len(w))), reverse=True)
        for i in cuts:
            j = min(len(w), i + rng.randint(0, 2))
            w[i:j] = ['ELL']
        if rng.random() < 0.3:
            w[rng.randrange(len(w))] = rng.choice(['A', 'B'])       # a near miss
        out.append((tuple(g), tuple(w)))
    return out


def derive_long_blank_pairs(rng, n):
    """long texts with 45..70 blanks, the want with its blanks written differently / dropped (IGNORE_WHITESPACE, NORMALIZE_WHITESPACE)"""
    out = []
    for _ in range(n):
        words = [rng.choice(['A', 'B', 'U', 'DOT']) for _ in range(rng.randint(46, 71))]
        g, w = [], []
        for x, t in enumerate(words):
            g.append(t)
            w.append(t)
            if x < len(words) - 1:
                g.append('SP')
                r = rng.random()
                if r < 0.4:
                    w.append(rng.choice(['SP', 'NL', 'TAB']))
                elif r < 0.6:
                    w += ['SP', 'SP']
                # else: no blank at all in the want
        out.append((tuple(g), tuple(w)))
    return out
