#!/venv/bin/python
"""usage: mkmutant.py <name> <file under /repo> <old> <new>  -> selftest/mutants/<name>.diff (repo left untouched)"""
import subprocess, sys, os
name, path, old, new = sys.argv[1:5]
full = os.path.join('/repo', path)
s = open(full).read()
assert s.count(old) == 1, 'old text occurs %d times' % s.count(old)
open(full, 'w').write(s.replace(old, new))
try:
    diff = subprocess.run(['git', '-C', '/repo', 'diff', '--', path], stdout=subprocess.PIPE, text=True).stdout
finally:
    subprocess.run(['git', '-C', '/repo', 'checkout', '--', path])
open(os.path.join('/verif/selftest/mutants', name + '.diff'), 'w').write(diff)
print(name, 'ok', len(diff.splitlines()), 'lines')
