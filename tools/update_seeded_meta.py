#!/usr/bin/env python3
"""Writes the `detected_by` entry of every seeded/<id>/meta.json from seeded/RESULTS.tsv (tools/run_seeded.sh)."""
import csv
import json
import os
HERE = os.path.dirname(os.path.dirname(os.path.abspath(__file__)))
rows = {}
with open(os.path.join(HERE, 'seeded', 'RESULTS.tsv')) as f:
    for r in csv.reader(f, delimiter='\t'):
        if len(r) >= 3:
            rows[r[0]] = r
for mid, r in sorted(rows.items()):
    p = os.path.join(HERE, 'seeded', mid, 'meta.json')
    if not os.path.exists(p):
        continue
    meta = json.load(open(p))
    meta['detected_by'] = {'check': './check %s --tier quick' % r[1], 'exit_code': int(r[2]) if r[2].lstrip('-').isdigit() else r[2],
                           'summary': r[3] if len(r) > 3 else '', 'first_signatures': r[4] if len(r) > 4 else ''}
    json.dump(meta, open(p, 'w'), indent=1)
    open(p, 'a').write('\n')
print('updated', len(rows))
