#!/bin/sh
# usage: tools/withpatch.sh <patch.diff> <command...>   (applies patch to /repo, runs, always reverts)
p="$1"; shift
git -C /repo apply "$(readlink -f "$p")" || { echo "patch does not apply"; exit 3; }
"$@"; rc=$?
git -C /repo checkout -- . 
exit $rc
