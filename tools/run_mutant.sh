#!/bin/sh
# usage: tools/run_mutant.sh <patch.diff> <PROPERTY> [tier]
# Runs ./check <PROPERTY> against a scratch copy of /repo/src with the patch applied (never touches /repo,
# never touches /verif/evidence).  Prints the summary lines; exit code of the check is returned.
patch=$(readlink -f "$1"); prop="$2"; tier="${3:-quick}"
id=$(basename "$(dirname "$patch")")-$(basename "$patch" .diff)-$$
d=/tmp/xdv-mut/$id
mkdir -p $d/ev && cp -r /repo/src $d/src && find $d/src -name __pycache__ -prune -exec rm -rf {} + 2>/dev/null
(cd $d && git init -q . 2>/dev/null; git -C $d apply --whitespace=nowarn "$patch") || { echo "patch does not apply"; rm -rf $d; exit 3; }
cd /verif && XDV_SRC=$d/src XDV_EVIDENCE=$d/ev ./check "$prop" --tier "$tier" > $d/log 2>&1; rc=$?
grep -E "violations with|^$prop |MACHINERY|KNOWN-FINDING" $d/log | head -8
echo "rc=$rc"
rm -rf $d
exit $rc
