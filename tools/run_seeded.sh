#!/bin/sh
# Runs every seeded change (seeded/<id>/patch.diff) against the quick check of the property it breaks, on a scratch copy
# of /repo/src, and writes seeded/RESULTS.tsv (id, property, exit code, summary line). /repo is never touched.
cd /verif
out=seeded/RESULTS.tsv
: > $out.tmp
for d in seeded/*/; do
  id=$(basename $d)
  [ -f $d/patch.diff ] || continue
  prop=$(python3 -c "import json;print(json.load(open('$d/meta.json'))['breaks_property'])")
  res=$(tools/run_mutant.sh $d/patch.diff $prop 2>&1)
  rc=$(echo "$res" | grep -a '^rc=' | tail -1 | cut -d= -f2)
  line=$(echo "$res" | grep -a "^$prop " | tail -1)
  sigs=$(echo "$res" | grep -a "violations with signature" | head -2 | sed 's/  violations with signature //' | tr '\n' ' ')
  printf '%s\t%s\t%s\t%s\t%s\n' "$id" "$prop" "$rc" "$line" "$sigs" >> $out.tmp
  echo "$id $prop rc=$rc"
done
mv $out.tmp $out
