#!/bin/bash
# Runs every seeded change (seeded/<id>/patch.diff) against the quick check of the property it breaks, on a scratch copy
# of /repo/src, and writes seeded/RESULTS.tsv (id, property, exit code, summary line, first signatures). /repo is never
# touched.  usage: tools/run_seeded.sh [parallel jobs, default 3]
cd /verif
jobs=${1:-3}
tmp=$(mktemp -d /tmp/xdv-seeded.XXXXXX)
export tmp
one() {
  d=$1; id=$(basename $d)
  prop=$(python3 -c "import json;print(json.load(open('$d/meta.json'))['breaks_property'])")
  # (meta.json may name other checks to use: a change that breaks its property through a layer another check owns)
  with=$(python3 -c "import json;print(' '.join(json.load(open('$d/meta.json')).get('detected_with', [])))")
  rc=0
  for c in ${with:-$prop}; do
    prop=$c
    res=$(tools/run_mutant.sh $d/patch.diff $prop 2>&1)
    rc=$(echo "$res" | grep -a '^rc=' | tail -1 | cut -d= -f2)
    [ "$rc" = "1" ] && break
  done
  line=$(echo "$res" | grep -a "^$prop " | tail -1)
  sigs=$(echo "$res" | grep -a "violations with signature" | head -2 | sed 's/  violations with signature //' | tr '\n' ' ')
  printf '%s\t%s\t%s\t%s\t%s\n' "$id" "$prop" "$rc" "$line" "$sigs" > $tmp/$id.tsv
  echo "$id $prop rc=$rc"
}
export -f one
ls -d seeded/*/ | sed 's#/$##' | xargs -P $jobs -I{} bash -c 'one {}'
cat $tmp/*.tsv | sort > seeded/RESULTS.tsv
rm -rf $tmp
awk -F'\t' '$3 != 1 {print "NOT DETECTED: " $1 " (" $2 ") rc=" $3}' seeded/RESULTS.tsv
