#!/bin/sh
# usage: tools/confirm_mutant.sh <seed-id> <worktree> <property>
# Confirms in the scratch worktree: demo fails with the change, suite passes (2 known failures),
# demo passes without the change. On success copies the artefacts to /verif/seeded/<seed-id>/.
# (no git stash: the stash is shared between worktrees)
id="$1"; wt="$2"; prop="$3"
out=/verif/seeded/$id; mkdir -p /tmp/mut; log=/tmp/mut/confirm_$id.log
export PYTHONPATH=$wt/src
cd "$wt" || exit 2
git diff -- src > /tmp/mut/$id.current.diff
[ -s /tmp/mut/$id.current.diff ] || { echo "$id: no change applied in $wt"; exit 2; }
find "$wt/_out" -name '*.py' ! -name demo.py -delete 2>/dev/null
/venv/bin/python _out/demo.py > $log.demo_with 2>&1; rc_with=$?
/venv/bin/python -m pytest -q -p no:cacheprovider --timeout=900 --ignore=_out > $log.suite 2>&1
suite=$(tail -1 $log.suite)
git checkout -q -- src
/venv/bin/python _out/demo.py > $log.demo_without 2>&1; rc_without=$?
git apply /tmp/mut/$id.current.diff
echo "$id: demo_with_change=$rc_with demo_without=$rc_without suite: $suite"
case "$suite" in *"2 failed, 298 passed"*) ok_suite=1;; *) ok_suite=0;; esac
if [ $rc_with -ne 0 ] && [ $rc_without -eq 0 ] && [ $ok_suite -eq 1 ]; then
  mkdir -p $out
  cp /tmp/mut/$id.current.diff $out/patch.diff
  cp _out/demo.py $out/demo.py
  [ -f _out/notes.md ] && cp _out/notes.md $out/notes.md
  cat > $out/meta.json <<META
{
 "id": "$id",
 "breaks_property": "$prop",
 "base_commit": "$(git -C $wt rev-parse --short HEAD)",
 "confirmed": {
  "suite_with_change": "$suite",
  "demo_exit_with_change": $rc_with,
  "demo_exit_without_change": $rc_without,
  "commands": ["PYTHONPATH=<wt>/src /venv/bin/python _out/demo.py", "PYTHONPATH=<wt>/src /venv/bin/python -m pytest -q -p no:cacheprovider --timeout=900 --ignore=_out", "git checkout -- src; demo; git apply <diff>"]
 },
 "needs_to_manifest": "see notes.md",
 "detected_by": "see DESIGN.md section 8.3"
}
META
  echo "$id: CONFIRMED -> $out"
else
  echo "$id: NOT CONFIRMED"
fi
