#!/venv/bin/python
"""Regenerates /verif/MANIFEST.json from the table below (single source of truth)."""
import json
import os
import subprocess

HERE = os.path.dirname(os.path.dirname(os.path.abspath(__file__)))

CHECKS = {}


def check(pid, level_text, note, technique, design_ref, engine, category='model_checking'):
    CHECKS[pid] = {
        'property_id': pid,
        'quick_cmd': './check %s --tier quick' % pid,
        'thorough_cmd': './check %s --tier thorough' % pid,
        'evidence_file': 'evidence/%s.json' % pid,
        'replay_cmd_template': './check %s --replay {path}' % pid,
        'engine': engine,
        'level_claimed': {'category': category, 'text': level_text, 'design_ref': design_ref},
        'level_note': note,
        'technique': technique,
    }


check('C06',
      'TLC enumerates every (got, want-with-wildcard) pair over a 5-6 token alphabet up to the length bound and checks that the '
      'transcribed greedy scan equals an exists-placement definition of the wildcard (Match.tla: GreedyIsDecl, EllipsisOffLiteral); '
      'every pair of that space is then executed by the real checker._ellipsis_match / check_output(+/-ELLIPSIS) and must equal the '
      'row TLC computed; seeded random longer pairs are recorded from the real code and validated by MatchTrace.tla.',
      'Trusted: TLC, the token<->text mapping of harness/matchlib.py, Python re for nothing (the oracle is the TLA+ definition). '
      'Bound: |got|<=3,|want|<=5 tokens quick, <=4/<=5 with newline thorough, "..." available as one token so that wants with '
      'several wildcards fit; longer strings only by seeded sampling.',
      'TLA+ transcription + declarative definition, TLC exhaustive evaluation, exhaustive replay into the code, trace validation of recorded calls',
      'DESIGN.md section 5 (C06)', 'match')

check('C05',
      'TLC computes from the step-by-step transcription of check_output/normalize in Match.tla, for every got of two to three token '
      'spaces, the set of matching wants under each of the 32 flag sets, and checks the property-level invariants on those rows '
      '(Reflexive, ExactWhenStrict, MonotonePositive, MonotoneBlankline, DifferentCoreNeverMatches); every (got, want, flags) triple of '
      'those spaces is evaluated by the real checker.check_output and must equal the row; the monotonicity/reflexivity statements are '
      're-evaluated on the implementation rows; seeded random longer triples recorded from the code are validated by MatchTrace.tla.',
      'Trusted: TLC, the token<->text mapping. Spaces: all 13 tokens up to length 2; a wildcard/quote alphabet up to got 3 / want 4; '
      'thorough adds 9 tokens up to length 3. One colour sequence and one marker spelling stand for their classes. Four exotic '
      'monotonicity counterexample families are recorded as known findings F8/F13/F14/F15 and carved out of the invariants by signature.',
      'TLA+ transcription of the normalisation pipeline, TLC exhaustive evaluation with property invariants, exhaustive replay into the code, trace validation',
      'DESIGN.md section 5 (C05)', 'match')

DOCRUN_NOTE = ('Trusted: TLC; the statement templates and the rendering of parts to doctest text in harness/runlib.py (validated on the '
               'unchanged tree: every predicted part structure is compared with what the real parser produced). Matching inside a want '
               'is token equality at this level (character level: C05/C06).')

check('C02',
      'DocRun.tla models DocTest.run action by action (directive update, skip, import, compile, exec, want check against every trailing '
      'sequence of unmatched outputs, except ladder, summary). TLC enumerates every program of <=3 (quick) / <=4 (thorough) parts over 8 body '
      'kinds x 9 want kinds and checks that the operational outcome equals a declarative reference in which wants are defined from the '
      'program (everything since the previous want / own output / repr / four corruptions). Every terminal state is rendered to a doctest, '
      'run by the real DocTest.run, and verdict, exception type, failing part, executed statements, logged stdout per part, skipped parts '
      'and the length of the unmatched buffer must equal the prediction.',
      DOCRUN_NOTE, 'TLA+ run-loop spec vs declarative reference (TLC exhaustive), exhaustive replay of TLC terminal states into DocTest.run',
      'DESIGN.md section 5 (C02)', 'docrun')

check('C03',
      'DocRun.tla models the except ladder of DocTest.run and check_exception (want consulted only when the part has one; non-traceback want '
      're-raises; final line compared under ELLIPSIS / IGNORE_EXCEPTION_DETAIL; buffer untouched; loop continues). TLC enumerates every '
      'program of <=3 parts over 50 part kinds (raising bodies x 8 want forms x inline/block flag directives, traceback wants on non-raising '
      'code) against the declarative RefPartOutcome/ExcAccepted; every terminal state is run by the real DocTest.run with exception class, '
      'message and call depth rotating; a failure must carry exactly the raised class and message and statements after an expected exception must run.',
      DOCRUN_NOTE, 'TLA+ run-loop spec vs declarative reference (TLC exhaustive), exhaustive replay of TLC terminal states into DocTest.run',
      'DESIGN.md section 5 (C03)', 'docrun')

check('C04',
      'DocRun.tla models RuntimeState.update with the persistent dictionary and the per-part overlay (copy-on-write for REQUIRES) and, '
      'independently, the declarative fold of block directives (FoldBlock/RefStateAt). TLC enumerates every event sequence of <=3 (quick) / <=4 '
      '(thorough) parts over 36 part kinds x 3 default-option settings and checks SkippedIsRef, PersistentIsFold, OverlayEmptyAtChoose, '
      'OutcomeIsRef; every terminal state is rendered (statement shapes one-line / bracketed / compound / decorated rotate; conditions are env:, '
      'module: and argv requirements the harness controls) and run by the real DocTest.run: executed statements, skipped parts, verdict, logged '
      'stdout and the final persistent RuntimeState must equal the prediction. Layer below: Directive.tla models the text of a directive comment '
      '(option syntax: token scan with paren stack vs the documented syntax; recognition: prefixes x placements; 28 REQUIRES condition spellings: '
      'ladder vs documented meaning; effect on the state); every case is replayed through Directive.extract, _is_requires_satisfied and a doctest.',
      DOCRUN_NOTE, 'TLA+ run-loop spec vs declarative fold (TLC exhaustive), exhaustive replay of TLC terminal states into DocTest.run; TLA+ '
      'directive-comment spec (TLC exhaustive) replayed into Directive.extract and doctests',
      'DESIGN.md section 5 (C04)', 'docrun')

check('C09',
      'DocRun.tla models every exit of the per-part try/except ladder (directive error, import failure, compile error, exception, helper '
      'exception, got/want, raising repr, ExitTestException). TLC enumerates every program of <=3 (quick) / <=4 (thorough) parts over 24 part '
      'kinds x import ok/failing and checks ReturnNeverRaises and OutcomeIsRef; every terminal state is run by the real DocTest.run(on_error='
      'return) with verbosity rotating 0..3, repr_failure() must render and name the exception type and the failing line, failed_lineno() must '
      'be the raising statement / first want line; every failing <=2(3)-part program is embedded between two good doctests in a module run by '
      'runner.doctest_module, which must return with n_total=3, the neighbours executed and passed, failed[] naming exactly the bad one.',
      DOCRUN_NOTE, 'TLA+ run-loop spec (TLC exhaustive), exhaustive replay of TLC terminal states into DocTest.run and runner.doctest_module',
      'DESIGN.md section 5 (C09)', 'docrun')

check('C12',
      'DocRun.tla carries the capture state of sys.stdout through every exit of the run (normal, recorded failure, on_error=raise, '
      'ExitTestException, pytest Skipped, SystemExit, KeyboardInterrupt, import failure); TLC checks StdoutRestored over every program of '
      '<=3 (quick) / <=4 (thorough) parts over 14 part kinds (printing, replacing sys.stdout, changing warning filters, awaiting) x on_error x '
      'mode x import ok/failing. Every terminal state is run by the real DocTest.run and sys.stdout, sys.stderr, sys.path, warnings.filters, '
      'warnings.showwarning are compared with their values at entry and no event loop may be left running, at normal and exceptional exits '
      '(verbosity 0..3 rotating; a body kind that closes the capture stream). PathCtx.tla models PythonPathContext around an import whose module '
      'changes sys.path itself, also by binding it to a new list object (every behaviour replayed); Capture.tla models CaptureStdout/TeeStringIO '
      'as a state machine (construct, enter, print, leave, leave with an exception on its way out; two objects, suppressing or teeing, enabled or not; invariants PartsExact, '
      'NothingLostOrTwice, SuppressHides, TeeShows, RestoredLIFO, DisabledInert, NeverSwallows) and every behaviour of <=6 steps (quick; 28 348) / a seeded sample of 200 000 of the 709 516 behaviours of <=8 steps (thorough) is stepped through '
      'the real objects with the projected state compared after each step; imports by path from zip archives (succeeding, failing, missing) are compared for '
      'sys.path, warning filters and streams; recorded run-loop traces are validated against DocRunTrace.tla (CapEnter/CapExit restore stdout).',
      DOCRUN_NOTE + ' Import by path outside a run (import_module_from_path) is covered by the C17 check.',
      'TLA+ run-loop spec (TLC exhaustive), exhaustive replay of TLC terminal states into DocTest.run with before/after snapshots of process globals',
      'DESIGN.md section 5 (C12)', 'docrun')

DOCPARSE_NOTE = ('Trusted: TLC; the line templates of harness/parselib.py (each template is checked at start against Python\'s own tokenizer/ast '
                 'for the attributes the specification assumes: lines until balanced, statement starts, expression). The tokenizer is exercised '
                 'only through those templates. Known finding F11 (prompt at another indentation directly under source) is carved out of the '
                 'invariants and reported as KNOWN-FINDING; for those docstrings only the declarative labels are compared.')

check('C13',
      'DocParse.tla models the parser line by line: the 4-state labeller with state_indent and statement completion (Feed, one step per line), the '
      'three grouping passes and the packaging (PS1 lines, directive breaks, final-expression split, compile modes) on index ranges, plus a '
      'declarative labelling Decl written from the property sentence. TLC enumerates every docstring of <=3 building blocks over 50 block kinds '
      '(12 statement shapes x prompt styles x 2 indentation levels, text, blank, bare "...", "... text"; thorough: <=5 over a core alphabet) and '
      'checks LabelsAreDecl, PartsPartition, LabelsMatchParts, NoStatementSplit. Every finished docstring is rendered from the abstract line list '
      'and parsed by the real DoctestParser: labels per line, parts (kind, line_offset, source/want line counts, mode, directives), error class, '
      'and the parts joined back must equal the specification and reproduce the docstring; a fifth also tab-indented / extra-indented.',
      DOCPARSE_NOTE, 'TLA+ parser spec vs declarative labelling (TLC exhaustive), exhaustive replay of TLC-generated docstrings into the real parser',
      'DESIGN.md section 5 (C13)', 'docparse')

check('C01',
      'DocParse.tla over programs (C01_Blocks: 13 statement shapes x prompt styles, trailing +SKIP on first/last line, +SKIP/-SKIP comment lines, '
      'wants, prose, blank lines): TLC checks NoStatementSplit, PartsPartition, EvalPartsSingleStatement and RunSetAgrees (the run loop over the '
      'packaged parts runs exactly the statements the declarative directive rule enables, once, in order) for every program of <=3 (thorough <=4) '
      'blocks. Every finished program is rendered; its de-prompted source minus disabled statements is executed as an ordinary program '
      '(reference) and by the real DocTest.run: executed-statement trace, stdout per part and in total, final bindings must agree with the '
      'reference and the prediction; consecutive doctests are checked for stdout attribution; tab / extra-indent variants.',
      DOCPARSE_NOTE + ' Wants are ignored in these runs (verdicts: C02). Top-level await is covered by body kind "await" of the DocRun checks.',
      'TLA+ parser+run-set spec (TLC exhaustive), exhaustive replay into DocTest.run against a plain-exec reference',
      'DESIGN.md section 5 (C01)', 'docparse')

check('C14',
      'DocParse.tla has explicit error transitions (statement never balanced, bad indentation inside an open statement, completed chunk not valid '
      'Python, "... text" read as code); TLC enumerates every docstring of <=3 (thorough <=4) blocks over well-formed and malformed building blocks '
      'and checks that an error needs a malformed block. Every finished docstring is parsed by the real parser under an alarm: the outcome class '
      '(parts / DoctestParseError) must be the predicted one, never another exception or a hang. Containment: three docstrings per module '
      '(>=1 malformed) collected under each style: a malformed docstring gives a warning and no example, the others their example, each runnable. '
      'Seeded random strings from a fragment grammar are checked against the envelope only.',
      DOCPARSE_NOTE + ' For the random strings the specification supplies only the envelope (parts or DoctestParseError within 5 s); their outcome is not predicted.',
      'TLA+ parser spec with error transitions (TLC exhaustive), exhaustive replay into the real parser and collector, random envelope',
      'DESIGN.md section 5 (C14)', 'docparse')

check('C18',
      'DocParse.tla second round: the formatted source of a parsed docstring (source lines as kept by the parts, want lines, text dropped) is fed '
      'to the same labeller/grouper/packager again; TLC checks ReparseSame (same flattened executable lines, wants at the same places, same '
      'evaluation modes, no error) for every program of <=3 blocks over C01_Blocks (1.3M states). For the finished docstrings the real '
      'DocTest.format_src is compared line by line with the predicted formatted text (prompts+wants; no prompts/no wants), the numbers in the '
      'left margin with the line positions (doctest-relative and file-relative, four start lines), and the formatted text is parsed again by the '
      'real parser and compared with the original parts.',
      DOCPARSE_NOTE, 'TLA+ parser spec with re-parse round (TLC exhaustive), replay into DocTest.format_src and the real parser',
      'DESIGN.md section 5 (C18)', 'docparse')

check('C19',
      'DocParse.tla over C19_Blocks (programs incl. star-imports, directives, multi-line/decorated/triple-quoted statements, wants): the parts the '
      'dump conversion iterates over hold every source line once and in order (PartsPartition, NoStatementSplit). Modules of 1..3 finished '
      'docstrings (some force-disabled) are converted by runner.doctest_module(path, "dump"): the output must parse with ast, contain exactly one '
      'test function per enabled doctest, and each body (minus generated docstring/import header) must be the de-prompted source lines without '
      'star-imports interleaved with the want lines as comments, in order.',
      DOCPARSE_NOTE + ' Body lines are compared on content; indentation inside multi-line strings is not.',
      'TLA+ parser spec (TLC exhaustive), replay of TLC-generated docstrings through the dump command, ast check',
      'DESIGN.md section 5 (C19)', 'docparse')

COLLECT_NOTE = ('Trusted: TLC; the one-format-string-per-line rendering of harness/collectlib.py (the rendered module is compiled by Python before '
                'use). The file line list, the inventory and the ghost line numbers come from the specification; names are unique per item.')

check('C07',
      'Collect.tla models a module as items in source order with nesting depth and computes the file line list; the visitor is a stack machine '
      '(current class, not-visited depth, overwrite of equal callnames) and DeclInventory is written from the property text; NExamples gives the '
      'per-style count. TLC checks VisitIsDecl and UniqueNames for every module of <=3 (thorough <=4) items over 58 item kinds (def / async def / '
      'class / if True / main guard / try / with; plain, wraps, property, setter, deleter, static, class decorators; none / freeform / google '
      'docstrings) x 3 module docstrings. Each module is rendered and collected by the real static collector under the three styles: the set of '
      '(callname, index) must be the predicted one, each once, identifiers unique, parse_static_calldefs = inventory. Further spaces over the same '
      'spec: freeform layouts with skip words in front of a group (Kept vs WalkKept, ExamplesAreDecl; start line and source lines compared) and '
      'definitions inside except / else / finally / case / if-else / for-else clauses and for bodies. Code -> spec: CollectTrace.tla evaluates '
      'the visitor model on the item lists of real modules (repository; thorough: standard library) against the real collector. '
      'GoogleBlocks.tla models the grouping of a google docstring into blocks line by line (replayed into split_google_docblocks / '
      'parse_google_docstr_examples). Package trees: see C17 (package_modpaths).',
      COLLECT_NOTE, 'TLA+ visitor spec vs declarative inventory (TLC exhaustive), replay of TLC-generated modules into the real collector',
      'DESIGN.md section 5 (C07)', 'collect')

check('C08',
      'Collect.tla computes the file as a sequence of abstract lines, so ghost positions (opening line of each docstring, first prompt of each '
      'doctest) are indices; the model transcribes the code\'s arithmetic (docstring start from end line minus newline count with the prefix+triple '
      'quote test, google start = tag line + 1, freeform start = lines before the first prompt). TLC checks DocOpenIsGhost and StartIsGhost over '
      'header layouts x 1560 (quick) / 3781 (thorough) docstring layouts (6 quote styles, opening alone/shared, closing alone/after text/with '
      'comment, 0-2 leading lines, google blocks incl. bodies starting with prose/blank = known finding F12, 1-2 groups, multi-line statements, 0-2 '
      'want lines) after filler items and module docstrings, top-level and nested. Each module is collected under three styles and every doctest '
      'run: doclineno, DocTest.lineno, lineno+line_offset of each part and failed_lineno() must be the ghost / predicted line (raising statement, '
      'calling line for a helper defined in the doctest, first want line for a mismatch).',
      COLLECT_NOTE + ' Static analysis only. F12 is carved out by signature (google block with leading text) and reported as KNOWN-FINDING.',
      'TLA+ layout spec with ghost line numbers vs arithmetic model (TLC exhaustive), replay into collection + run',
      'DESIGN.md section 5 (C08)', 'collect')

check('C16',
      'Collect.tla restricted to importable modules (C16_Items: functions, async functions, classes, static/class methods, properties with setters, '
      'plain and functools.wraps decorators, definitions in if True / try / with, under the main guard and inside functions, an imported callable '
      'that itself has doctests): VisitIsDecl for every module of <=3 (thorough <=4) items. Each module is rendered and collected with '
      'analysis=static and analysis=dynamic under three styles: sorted (identifier, doctest source) must be equal, and equal to the prediction.',
      COLLECT_NOTE, 'TLA+ visitor spec vs declarative inventory (TLC exhaustive), replay comparing static and dynamic collectors',
      'DESIGN.md section 5 (C16)', 'collect')

check('C17',
      'ModPath.tla builds directory trees below one search-path entry (node states: nothing, module file, plain directory, regular package, '
      'package with __main__.py, directory+file of one name) and transcribes the candidate search with the __init__ chain check (OpResolve), the '
      'walk up while __init__.py exists (OpSplit) and the pruned package walk (OpWalk); DeclResolve is the interpreter\'s regular-package rule. TLC '
      'checks ResolveIsImport, RoundTrip, SplitIsDecl, WalkIsDecl on all 149k depth-2 trees over two names per level and a depth-3 family. Sampled '
      'trees are materialised: for every dotted name (present, absent, __main__) modname_to_modpath must equal the specification and what '
      'importlib\'s FileFinder finds part by part; every module path is converted back (modpath_to_modname, split_modpath); modules are imported by '
      'path (name, sys.path restored, also when the module raises); package_modpaths must list exactly the package tree. SearchPath.tla puts two '
      'or three such trees on one search path: the candidate loop (first entry in which the whole name resolves) against the interpreter (the '
      'first entry that provides the top-level name decides), MultiResolveIsImport with the named known deviation Shadowed (finding F24); every '
      'pair of trees (a sample of the triples) is materialised and modname_to_modpath(sys_path=[...]) compared with the specification and FileFinder.',
      'Trusted: TLC, importlib.machinery.FileFinder as oracle for the declarative rule (a disagreement between the two is a machinery error). '
      'Regular-package semantics: PEP 420 namespace portions count as nothing. Names never contain __init__.',
      'TLA+ resolution spec vs import-rule definition (TLC exhaustive), replay of TLC-generated trees on the file system with a FileFinder oracle',
      'DESIGN.md section 5 (C17)', 'modpath')

SESSION_NOTE = ('Trusted: TLC; the doctest templates of harness/sessionlib.py whose outcome alone is known by construction (the same templates are '
                'judged by the front-end checks and by the history check, so a wrong template shows up as a violation on the unchanged tree).')

check('C10',
      'Session.tla models the native front end (gather: all minus force-disabled, or the named doctest even if disabled; one run per gathered '
      'doctest; tallies; failed list; exit status from n_failed; list). TLC checks RunSetRight, TalliesAddUp, ExitIffFailed, ListNamesAll for every '
      'module of <=3 (thorough <=4) doctests over 12 by-construction outcome kinds (incl. failures before any part runs) x commands {all, list, '
      '<name:num>, <name>} x default options {none, +SKIP, -ELLIPSIS}. Each finished case is rendered and run by runner.doctest_module in process '
      '(verbosity 0..3, styles rotating): tallies, failed list, executed statements (each gathered doctest once, in order), the status returned by '
      'xdoctest.__main__.main, the listing; a rotating sample through `python -m xdoctest` subprocesses. Code -> spec: sessions recorded from '
      'the real runner by the probe (collected / selected / run outcomes / tallies / summary / exit status) - a sample of the modelled modules, '
      'the library doctests and the repository tests that drive the runner - are validated by TLC against specs/SessionTrace.tla; tampered '
      'sessions must be rejected.',
      SESSION_NOTE, 'TLA+ runner spec (TLC exhaustive), replay of TLC-generated modules through the native runner and CLI, trace validation of '
      'recorded runner sessions against SessionTrace.tla',
      'DESIGN.md section 5 (C10)', 'session')

check('C11',
      'Session.tla history mode: the doctests of a module are collected once and then run in any order, with repetition, with environment changes '
      'in between; the process state that could carry over (visible names, module globals, default directive state, per-object buffer of '
      'unmatched output) is explicit. TLC checks Isolation (every run has the outcome the doctest has alone), ModuleGlobalsKept, DefaultsKept for '
      'every history of <=4 events over every module of <=3 doctests from 12 kinds (735k states). Sampled histories are replayed in one process '
      'on the rendered module: outcome and recorded stdout of every run must be the solo ones; module globals, DEFAULT_RUNTIME_STATE, sys.stdout '
      'and warning filters must be unchanged.',
      SESSION_NOTE, 'TLA+ history spec (TLC exhaustive), replay of TLC-generated histories into DocTest.run in one process',
      'DESIGN.md section 5 (C11)', 'session')

check('C15',
      'Session.tla with both front ends over the same collected list (native: force-disabled omitted; pytest: item skipped when force-disabled, '
      'run(on_error=raise), skipped when every part was skipped / nothing ran), default options given to both. TLC checks PytestVerdicts together '
      'with the native invariants for every module of <=3 (thorough <=4) doctests over 12 kinds x 3 option sets. Modules are placed six to a '
      'directory; one `pytest --xdoctest` subprocess per directory (recorder conftest) and the native runner per module and per doctest: same '
      'identifiers, predicted verdict on both sides, the two front ends equal to each other, force-disabled skipped vs omitted, exit codes '
      'non-zero exactly when a doctest failed.',
      SESSION_NOTE + ' pytest runs without the repository pytest.ini (-c /dev/null).',
      'TLA+ two-front-end spec (TLC exhaustive), replay through pytest subprocesses and the native runner',
      'DESIGN.md section 5 (C15)', 'session')

check('C20',
      'DocParse.tla over examples in standard syntax (C20_Blocks: silent assignment, comment, echoed value, print, print and value, raising with '
      '2/3-line traceback want, semicolon line, multi-line literal / expression, compound and decorated statements with "..." continuations with or '
      'without a bare terminator, examples with # doctest: +SKIP / +ELLIPSIS / +NORMALIZE_WHITESPACE, blank lines and prose). TLC checks StdCompat '
      'for every docstring of <=3 blocks: every want stays with the example directly above it, a value is echoed (eval/single) exactly for '
      'expression examples, and the only configuration that cannot match "stdout + repr" is eval mode on a print-and-value example (known finding '
      'F6, named in the spec). Wants are produced by the standard module\'s own runner (REPL semantics); the text is run by '
      'doctest.DocTestRunner(optionflags=0) - rejected texts are discarded and counted - and by xdoctest, which must collect it, pass, and '
      'execute the same examples (trace equal to the standard module\'s). Directive.tla over the standard prefix enumerates option comments by '
      'placement (behind the statement, on a continuation line, behind an empty source line of the statement) x separators x statement forms; '
      'the standard module judges each text and xdoctest must execute the same statements (known finding F25).',
      DOCPARSE_NOTE + ' The standard doctest module itself decides which texts count. F6 is reported as KNOWN-FINDING (signature: print-and-value '
      'example on a part in eval mode).',
      'TLA+ parser spec over standard-syntax examples (TLC exhaustive), differential replay against the standard doctest module',
      'DESIGN.md section 5 (C20)', 'docparse')

NOT_YET = ['C01', 'C02', 'C03', 'C04', 'C05', 'C07', 'C08', 'C09', 'C10', 'C11', 'C12', 'C13', 'C14', 'C15', 'C16',
           'C17', 'C18', 'C19', 'C20']


def main():
    try:
        commits = subprocess.run(['git', '-C', '/repo', 'log', '--format=%h %s', 'ce7a2fa..HEAD'], stdout=subprocess.PIPE, text=True).stdout.strip().splitlines()
    except Exception:
        commits = []
    man = {
        'version': 1,
        'setup_cmd': './setup.sh',
        'hooks': {
            'guard': 'XDOCTEST_VERIF_TRACE',
            'enable': 'no source hooks: the probe (harness/probe.py) wraps xdoctest functions at run time from /verif when XDOCTEST_VERIF_TRACE names an output file; /repo is used as is',
            'baseline_off_cmd': 'cd /repo && /venv/bin/python -m pytest -ra -q -p no:cacheprovider --timeout=900 --continue-on-collection-errors --junitxml=/tmp/xdv-baseline.junit.xml',
            'source_commits': [],
            'add_only': True,
        },
        'engines': [
            {'name': 'docrun', 'path': 'specs/DocRun.tla', 'serves_properties': ['C01', 'C02', 'C03', 'C04', 'C09', 'C11', 'C12'], 'kind_free_text': 'TLA+ spec of DocTest.run (run loop, directive state, want buffer, except ladder) with declarative reference; MC_DocRun.tla alphabets; TLC + replay harness runlib.py'},
            {'name': 'docparse', 'path': 'specs/DocParse.tla', 'serves_properties': ['C01', 'C13', 'C14', 'C18', 'C19', 'C20'], 'kind_free_text': 'TLA+ spec of the docstring parser (labeller, grouping, packaging, re-parse round, run set) with declarative labelling; MC_DocParse.tla alphabets; TLC prints finished docstrings, harness/parselib.py replays them'},
            {'name': 'collect', 'path': 'specs/Collect.tla', 'serves_properties': ['C07', 'C08', 'C16'], 'kind_free_text': 'TLA+ spec of module collection (visitor stack machine, declarative inventory, file line list, docstring/doctest line arithmetic); MC_Collect.tla alphabets; harness/collectlib.py renders and compares'},
            {'name': 'modpath', 'path': 'specs/ModPath.tla', 'serves_properties': ['C17', 'C07', 'C12'], 'kind_free_text': 'TLA+ spec of module name/path resolution, split and package walk over directory trees; MC_ModPath.tla; harness/c17.py materialises trees'},
            {'name': 'searchpath', 'path': 'specs/SearchPath.tla', 'serves_properties': ['C17'], 'kind_free_text': 'TLA+ spec of name resolution over a search path of several entries (trees of ModPath.tla built one after the other); MC_SearchPath.tla; harness/c17.py materialises the entries'},
            {'name': 'capture', 'path': 'specs/Capture.tla', 'serves_properties': ['C12', 'C01'], 'kind_free_text': 'TLA+ spec of CaptureStdout/TeeStringIO as a state machine; every behaviour stepped through the real objects (harness/c12.py capture_phase)'},
            {'name': 'pathctx', 'path': 'specs/PathCtx.tla', 'serves_properties': ['C12', 'C17'], 'kind_free_text': 'TLA+ spec of PythonPathContext around an import whose module changes sys.path; every behaviour replayed into the real context manager (harness/c12.py)'},
            {'name': 'session', 'path': 'specs/Session.tla', 'serves_properties': ['C10', 'C11', 'C15'], 'kind_free_text': 'TLA+ spec of a process running collected doctests through the native and pytest front ends or in arbitrary histories; harness/sessionlib.py renders by-construction doctests'},
            {'name': 'googleblocks', 'path': 'specs/GoogleBlocks.tla', 'serves_properties': ['C07'], 'kind_free_text': 'TLA+ spec of the line-by-line grouping of google-style docstrings into blocks and of the one-doctest-per-example-block rule; harness/googlelib.py replays into docscrape_google / core'},
            {'name': 'directive', 'path': 'specs/Directive.tla', 'serves_properties': ['C04', 'C20'], 'kind_free_text': 'TLA+ spec of directive comments (option syntax, recognition, REQUIRES conditions, effects); MC_Directive.tla alphabets; harness/dirlib.py replays'},
            {'name': 'sessiontrace', 'path': 'specs/SessionTrace.tla', 'serves_properties': ['C10'], 'kind_free_text': 'TLA+ trace specification of the native runner session; validates session events recorded by harness/probe.py from the real runner (harness/tracelib.py)'},
            {'name': 'docruntrace', 'path': 'specs/DocRunTrace.tla', 'serves_properties': ['C02', 'C03', 'C04', 'C09', 'C12'], 'kind_free_text': 'TLA+ trace specification of DocTest.run; validates run-loop events recorded by harness/probe.py (replayed cases, library doctests, repository tests)'},
            {'name': 'match', 'path': 'specs/Match.tla', 'serves_properties': ['C05', 'C06'], 'kind_free_text': 'TLA+ spec of output matching (normalisation pipeline, ellipsis) + MatchTrace.tla trace spec; TLC'},
        ],
        'checks': [CHECKS[k] for k in sorted(CHECKS)],
        'notes': 'Technique family: explicit TLA+ specifications checked with TLC, bound to the code by replay of TLC-generated cases into the real xdoctest and by validation of recorded calls/traces against trace specs. fix: commits in /repo: ' + '; '.join(commits),
        'not_applicable': [{'property_id': p, 'reason': 'check under construction in this session (not yet claimed); see DESIGN.md section 5'} for p in NOT_YET if p not in CHECKS],
    }
    with open(os.path.join(HERE, 'MANIFEST.json'), 'w') as f:
        json.dump(man, f, indent=1)
        f.write('\n')
    import jsonschema
    jsonschema.validate(man, json.load(open('/root/.vp/MANIFEST.schema.json')))
    print('MANIFEST.json written: %d checks, %d not_applicable' % (len(man['checks']), len(man['not_applicable'])))


if __name__ == '__main__':
    main()
