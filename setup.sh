#!/bin/sh
# Offline setup: nothing is installed or fetched. Parse every specification with
# SANY and byte-compile the harness so that a broken checkout fails here.
set -e
cd "$(dirname "$0")"
chmod +x check
for f in specs/*.tla; do case "$f" in *_TTrace_*) continue;; esac
  out=$(cd specs && java -cp /opt/veriftools/tla/tla2tools.jar:/opt/veriftools/tla/CommunityModules-deps.jar tla2sany.SANY "$(basename "$f")" 2>&1) || { echo "$out"; echo "SANY failed: $f"; exit 1; }
  case "$out" in *"*** Errors"*|*"Fatal errors"*) echo "$out"; echo "SANY errors: $f"; exit 1;; esac
done
/venv/bin/python -m compileall -q harness check >/dev/null
/venv/bin/python - <<'PY'
import sys
sys.path.insert(0, '/repo/src'); sys.path.insert(0, '.')
import xdoctest
from harness import common, tlaval
print('setup ok: xdoctest', xdoctest.__version__, 'from', xdoctest.__file__)
PY
